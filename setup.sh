#!/bin/bash
# Builds every engine once, offline, from files on disk only.
set -e
cd "$(dirname "$0")"
export CARGO_NET_OFFLINE=true
( cd engines && cargo build --release --offline )
if [ -x engines/srvsim/gen.sh ]; then
  ( cd engines/srvsim && ./gen.sh "${VERIF_REPO:-/repo}" && cargo build --release --offline )
fi
# second phase of C23: Miri's sysroot and the scenario's dependencies (best effort: ./check C23 notes a skip if Miri is missing)
if [ -x engines/c23miri/gen.sh ] && cargo +nightly miri --version >/dev/null 2>&1; then
  ( cd engines/c23miri && ./gen.sh "${VERIF_REPO:-/repo}" && cargo +nightly miri setup >/dev/null 2>&1 ) || true
fi
echo "setup ok"
