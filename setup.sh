#!/bin/bash
# Builds every engine once, offline, from files on disk only.
set -e
cd "$(dirname "$0")"
export CARGO_NET_OFFLINE=true
( cd engines && cargo build --release --offline )
if [ -x engines/srvsim/gen.sh ]; then
  ( cd engines/srvsim && ./gen.sh "${VERIF_REPO:-/repo}" && cargo build --release --offline )
fi
echo "setup ok"
