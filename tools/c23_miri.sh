#!/bin/bash
# c23_miri.sh <quick|thorough> | --seed <k>
# C23's second phase: the reader scenario of engines/c23miri under Miri, one schedule per Miri seed.
# Prints "MIRI-OK seeds=<n> wall_s=<s>", or "MIRI-VIOLATION seed=<k>" (exit 1), or "MIRI-SKIPPED <why>" (exit 0:
# the first phase has decided already; the skip is recorded in the evidence file).
cd "$(dirname "$0")/.."
export CARGO_NET_OFFLINE=true
REPO="${VERIF_REPO:-/repo}"
RATE="${VERIF_MIRI_PREEMPTION:-0.05}"
# what counts as a violation: a reader saw something else than the single-reader result, or Miri found undefined
# behaviour / a data race while only readers were running
BAD="^MISMATCH|Undefined Behavior|Data race detected"
mkdir -p target
( cd engines/c23miri && ./gen.sh "$REPO" ) || { echo "MIRI-SKIPPED gen.sh failed"; exit 0; }
if ! cargo +nightly miri --version >/dev/null 2>&1; then echo "MIRI-SKIPPED cargo +nightly miri is not available"; exit 0; fi
run() { # run <miriflags> <logfile>
  ( cd engines/c23miri && MIRIFLAGS="$1" cargo +nightly miri run --offline ) >"$2" 2>&1
}
if [ "${1:-}" = "--seed" ]; then
  run "-Zmiri-seed=$2 -Zmiri-preemption-rate=$RATE" target/c23miri-seed.log; rc=$?
  if grep -qE "$BAD" target/c23miri-seed.log; then grep -E "$BAD" target/c23miri-seed.log | head -1 | cut -c1-400; echo "MIRI-VIOLATION seed=$2"; exit 1; fi
  if [ $rc -ne 0 ]; then echo "MIRI-ERROR (see target/c23miri-seed.log)"; tail -5 target/c23miri-seed.log; exit 2; fi
  echo "MIRI-OK seeds=1"; exit 0
fi
case "${1:-quick}" in thorough) n="${VERIF_MIRI_SEEDS:-96}";; *) n="${VERIF_MIRI_SEEDS:-12}";; esac
base=$(( (${VERIF_SEED:-1} - 1) * 1000 ))
t0=$(date +%s)
run "-Zmiri-many-seeds=$base..$((base + n)) -Zmiri-preemption-rate=$RATE" target/c23miri.log; rc=$?
wall=$(( $(date +%s) - t0 ))
if grep -qE "$BAD" target/c23miri.log; then
  # which seed: re-run the range one seed at a time (only on this path)
  for k in $(seq $base $((base + n - 1))); do
    run "-Zmiri-seed=$k -Zmiri-preemption-rate=$RATE" target/c23miri-seed.log
    if grep -qE "$BAD" target/c23miri-seed.log; then grep -E "$BAD" target/c23miri-seed.log | head -1 | cut -c1-400; echo "MIRI-VIOLATION seed=$k"; exit 1; fi
  done
  echo "MIRI-ERROR a mismatch under -Zmiri-many-seeds did not reproduce with any single seed"; exit 2
fi
if [ $rc -ne 0 ]; then
  if grep -qE "error: could not compile|error\[E" target/c23miri.log; then echo "MIRI-ERROR build failed (target/c23miri.log)"; grep -E "^error" -A5 target/c23miri.log | head -20; exit 2; fi
  echo "MIRI-ERROR miri reported an error (target/c23miri.log)"; grep -E "^error" -A8 target/c23miri.log | head -30; exit 2
fi
ok=$(grep -c "^ok$" target/c23miri.log)
echo "MIRI-OK seeds=$ok wall_s=$wall"
