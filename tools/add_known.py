#!/usr/bin/env python3
"""add_known.py <replay-file> <slug> <what>: records a genuine, unrepaired defect as a known finding
(dev-time tool; checks never write known_findings.jsonl)."""
import sys, json, shutil
src, slug, what = sys.argv[1:4]
d = json.load(open(src))
dst = f"findings/{d['property']}-known-{slug}.json"
shutil.copy(src, f"/verif/{dst}")
with open("/verif/known_findings.jsonl", "a") as f:
    f.write(json.dumps({"status": "known", "property": d["property"], "signature": d["class"], "replay": dst, "what": what}) + "\n")
print("recorded", d["property"], d["class"])
