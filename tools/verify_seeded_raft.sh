#!/bin/bash
# verify_seeded_raft.sh <id> <worktree> <mutdir>: demo = src module raft_demo_test.rs declared from main.rs
set -u
id="$1"; wt="$2"; mut="$3"
cd "$wt" || exit 2
git checkout -q -- .; git clean -fdq agdb_server/src agdb_server/tests 2>/dev/null
demo=$(ls "$mut"/demo/*.rs | head -1)
cp "$demo" agdb_server/src/raft_demo_test.rs
grep -q "mod raft_demo_test" agdb_server/src/main.rs || sed -i 's/^mod utilities;/mod utilities;\n#[cfg(test)]\nmod raft_demo_test;/' agdb_server/src/main.rs
export CARGO_NET_OFFLINE=true
echo "== without patch: demo must pass"
cargo test -p agdb_server --offline --bin agdb_server raft_demo_test 2>&1 | grep -E "^test result|error(\[|:)" | head -3; ok_without=$([ "${PIPESTATUS[0]}" -eq 0 ] && echo 1 || echo 0)
git apply "$mut/patch.diff" || { echo "PATCH DOES NOT APPLY"; exit 2; }
echo "== with patch: demo must fail"
cargo test -p agdb_server --offline --bin agdb_server raft_demo_test 2>&1 | grep -E "^test result|error(\[|:)" | head -3; fail_with=$([ "${PIPESTATUS[0]}" -ne 0 ] && echo 1 || echo 0)
echo "== with patch: existing raft + unit tests must pass (demo module removed)"
rm agdb_server/src/raft_demo_test.rs; sed -i '/^#\[cfg(test)\]$/{N;/mod raft_demo_test;/d}' agdb_server/src/main.rs
cargo test -p agdb_server --offline --bin agdb_server 2>&1 | grep -E "^test result" | awk '{p+=$4; f+=$6} END {print "existing unit: passed",p,"failed",f; exit (f>0)}'
existing_ok=$?
git checkout -q -- .; git clean -fdq agdb_server/src 2>/dev/null
echo "RESULT id=$id demo_passes_without=$ok_without demo_fails_with=$fail_with existing_pass_with=$((1-existing_ok))"
