#!/bin/bash
# seeded_regress.sh [name-filter] : re-applies every kept seeded change to /repo (ported patch if present),
# runs the check(s) named in its meta.json ("regress" field, default: its property) at the quick tier and
# reverts. Prints one line per change. Dev-time tool: modifies /repo's working tree while it runs.
cd "$(dirname "$0")/.."
REPO="${VERIF_REPO:-/repo}"   # a scratch copy of /verif whose engines point at a scratch worktree works too
filter="${1:-}"
git -C "$REPO" diff --quiet || { echo "/repo working tree is not clean"; exit 2; }
for d in seeded/*/; do
  name=$(basename "$d")
  case "$name" in *"$filter"*) ;; *) continue;; esac
  prop=$(python3 -c "import json;m=json.load(open('$d/meta.json'));print(' '.join(m.get('regress',[m['property']])))")
  expect=$(python3 -c "import json;m=json.load(open('$d/meta.json'));print(m.get('expect','VIOLATION'))")
  patch="$PWD/${d}patch.diff"; [ -f "${d}patch_ported_to_current_head.diff" ] && patch="$PWD/${d}patch_ported_to_current_head.diff"
  if ! git -C "$REPO" apply "$patch" 2>/dev/null; then echo "$name: PATCH DOES NOT APPLY"; continue; fi
  res=""
  for p in $prop; do
    out=$(./check $p quick 2>&1); rc=$?
    res="$res $p:rc=$rc"
  done
  git -C "$REPO" checkout -- .
  echo "$name:$res (expected $expect)"
done
