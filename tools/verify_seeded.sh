#!/bin/bash
# verify_seeded.sh <id> <worktree> <mutdir> [crate]
# Confirms a sub-agent's seeded change: (1) existing tests pass with the patch, (2) demo fails with the patch,
# (3) demo passes without it. Demo = rust test file(s) in <mutdir>/demo/*.rs, copied to <crate>/tests/.
set -u
id="$1"; wt="$2"; mut="$3"; crate="${4:-agdb}"
cd "$wt" || exit 2
git checkout -q -- .; git clean -fdq agdb/tests agdb_server/tests 2>/dev/null
rm -f $crate/tests/zz_demo_*.rs
demos=()
for f in "$mut"/demo/*.rs; do b=$(basename "$f" .rs); cp "$f" "$crate/tests/zz_demo_$b.rs"; demos+=("zz_demo_$b"); done
export CARGO_NET_OFFLINE=true
echo "== without patch: demo must pass"
ok_without=1
for d in "${demos[@]}"; do cargo test -p $crate --offline --test "$d" 2>&1 | grep -E "^test result|error(\[|:)" | head -3; [ "${PIPESTATUS[0]}" -eq 0 ] || ok_without=0; done
git apply "$mut/patch.diff" || { echo "PATCH DOES NOT APPLY"; exit 2; }
echo "== with patch: demo must fail"
fail_with=0
for d in "${demos[@]}"; do cargo test -p $crate --offline --test "$d" 2>&1 | grep -E "^test result|error(\[|:)" | head -3; [ "${PIPESTATUS[0]}" -ne 0 ] && fail_with=1; done
echo "== with patch: existing tests must pass"
for d in "${demos[@]}"; do mv "$crate/tests/$d.rs" "/tmp/$d.rs.hold"; done
cargo test -p $crate --offline 2>&1 | grep -E "^test result" | awk '{p+=$4; f+=$6} END {print "existing: passed",p,"failed",f; exit (f>0)}'
existing_ok=$?
for d in "${demos[@]}"; do mv "/tmp/$d.rs.hold" "$crate/tests/$d.rs"; done
git checkout -q -- .
rm -f $crate/tests/zz_demo_*.rs
echo "RESULT id=$id demo_passes_without=$ok_without demo_fails_with=$fail_with existing_pass_with=$((1-existing_ok))"
