#!/bin/bash
# verify_seeded_runsh.sh <id> <worktree> <mutdir> <crate>: for demos that install themselves (demo/run.sh run from the
# worktree root): (1) run.sh passes without the patch, (2) fails with it, (3) the crate's existing tests pass with it.
set -u
id="$1"; wt="$2"; mut="$3"; crate="$4"
cd "$wt" || exit 2
git checkout -q -- .; git clean -fdq agdb/tests agdb_server/tests agdb_server/src 2>/dev/null
export CARGO_NET_OFFLINE=true
sh "$mut/demo/run.sh" >/tmp/vrs_$id.1 2>&1; ok_without=$([ $? -eq 0 ] && echo 1 || echo 0)
git checkout -q -- .
git apply "$mut/patch.diff" || { echo "PATCH DOES NOT APPLY"; exit 2; }
sh "$mut/demo/run.sh" >/tmp/vrs_$id.2 2>&1; fail_with=$([ $? -ne 0 ] && echo 1 || echo 0)
git checkout -q -- .; git clean -fdq agdb/tests agdb_server/tests agdb_server/src 2>/dev/null
git apply "$mut/patch.diff"
if [ "$crate" = agdb_server ]; then
  cargo test -p agdb_server --offline -- --test-threads=4 2>&1 | grep -E "^test result" | awk '{p+=$4; f+=$6} END {print "existing: passed",p,"failed",f; exit (f>0)}'
else
  cargo test -p agdb --offline 2>&1 | grep -E "^test result" | awk '{p+=$4; f+=$6} END {print "existing: passed",p,"failed",f; exit (f>0)}'
fi
existing_ok=$?
git checkout -q -- .
echo "RESULT id=$id demo_passes_without=$ok_without demo_fails_with=$fail_with existing_pass_with=$((1-existing_ok))"
