#!/usr/bin/env python3
"""keep_seeded.py <mutdir> <name> <property> <needs> <detected_by> [ported_patch]
Copies a confirmed seeded change into /verif/seeded/<name>/ with meta.json."""
import sys, os, shutil, json, subprocess
mut, name, prop, needs, detected = sys.argv[1:6]
ported = sys.argv[6] if len(sys.argv) > 6 else None
dst = f"/verif/seeded/{name}"
os.makedirs(dst, exist_ok=True)
shutil.copy(f"{mut}/patch.diff", f"{dst}/patch.diff")
if ported:
    shutil.copy(ported, f"{dst}/patch_ported_to_current_head.diff")
if os.path.isdir(f"{mut}/demo"):
    shutil.copytree(f"{mut}/demo", f"{dst}/demo", dirs_exist_ok=True)
if os.path.exists(f"{mut}/notes.md"):
    shutil.copy(f"{mut}/notes.md", f"{dst}/notes.md")
base = subprocess.run(["git","-C","/repo","rev-parse","--short","HEAD"],capture_output=True,text=True).stdout.strip()
meta = {
  "property": prop,
  "source": "independent sub-agent given only the property text and a scratch worktree",
  "needs_to_manifest": needs,
  "confirmed": "tools/verify_seeded.sh: demo passes without patch, demo fails with patch, existing `cargo test -p agdb` passes with patch",
  "ran": f"git -C /repo apply patch; ./check {prop} quick; git -C /repo checkout -- .",
  "detected_by": detected,
  "patch_applies_to": "patch.diff: repo state the agent worked on; patch_ported_to_current_head.diff (if present): same change re-expressed after later fix commits touched the same function",
  "repo_head_when_checked": base,
}
json.dump(meta, open(f"{dst}/meta.json","w"), indent=1)
print("kept", dst)
