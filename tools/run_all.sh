#!/bin/bash
# run_all.sh [quick|thorough] : runs every check in MANIFEST.json on the current tree, prints one line each
tier="${1:-quick}"
cd "$(dirname "$0")/.."
for id in $(python3 -c "import json; print(' '.join(c['property_id'] for c in json.load(open('MANIFEST.json'))['checks']))"); do
  s=$(date +%s)
  out=$(./check $id $tier 2>&1); rc=$?
  e=$(( $(date +%s) - s ))
  echo "$id rc=$rc ${e}s $(echo "$out" | grep -E 'held|VIOLATION|harness error' | tail -1 | cut -c1-160)"
done
