#!/bin/bash
# determinism.sh [runs-per-seed] [seeds...] : for every check and each VERIF_SEED given, runs the
# first N runs with 5 and with 2 worker processes (engine selftest) and compares event-log hashes,
# evaluation counts and verdicts per run.  Prints one line per (check, seed); exit 2 on any difference.
cd "$(dirname "$0")/.."
n="${1:-60}"; shift
seeds="${*:-1 2 3 7 11 1000003}"
rc=0
for id in $(python3 -c "import json; print(' '.join(c['property_id'] for c in json.load(open('MANIFEST.json'))['checks']))"); do
  case $id in
    C27|C28|C29|C30) bin=target/release/raftsim;;
    C24|C25|C31) bin=target/srvsim/release/srvsim;;
    *) bin=target/release/dbsim;;
  esac
  for s in $seeds; do
    out=$(VERIF_SEED=$s $bin selftest $id $n 2>&1 | tail -1)
    echo "$id seed=$s $out"
    case "$out" in *identical*) ;; *) rc=2;; esac
  done
done
exit $rc
