#!/usr/bin/env python3
"""Regenerates /verif/MANIFEST.json from the table below (single source of truth for the interface)."""
import json, subprocess, os

def hook_commits():
    out = subprocess.run(["git", "-C", "/repo", "log", "--format=%H %s"], capture_output=True, text=True).stdout
    return [l.split()[0] for l in out.splitlines() if " verif hook" in l]

ENGINES = {
    "dbsim": ("engines/dbsim", "E1/E4: in-memory SimFs behind agdb's cfg(agdb_verif) file seam + FaultyStorage wrapper + reference model; real agdb storage, WAL, collections, graph, db, queries"),
    "raftsim": ("engines/raftsim", "E2: discrete-event network + virtual clock around the real agdb_server/src/raft.rs (copied at build time, Instant rewritten)"),
    "c23miri": ("engines/c23miri", "E5: second phase of C23 - real agdb (DbFile, FileStorage, queries) on an in-memory file system, three reader threads, run under Miri's seeded scheduler (started by ./check C23 after the dbsim phase)"),
    "srvsim": ("engines/srvsim", "E3: the real agdb_server crate compiled in-process (symlink mirror + generated root), driven through its axum Router on a current_thread runtime"),
}

# id -> (engine, level, technique, level text, level note, design ref)
CHECKS = {
 "C01": ("dbsim", "fault_enumeration", "deterministic simulation: crash-point enumeration over a journalled in-memory file system, seeded storage programs",
         "Every prefix (plus torn variants and second crashes inside recovery) of the mutating file-system calls of each sampled storage program is recovered by the real FileStorage/WAL code and compared byte-for-byte with the last committed image. Exhaustive over crash points within a program; programs are sampled by seed.",
         "Crash = process death (prefix of issued calls + optional torn call). SimFs is a faithful POSIX file model. Programs are sampled, not enumerated.", "6/C01"),
 "C02": ("dbsim", "fault_enumeration", "deterministic simulation: crash at every mutating file-system call of seeded query histories; every snapshot reopened by every file-backed constructor in a supervised worker process and read completely",
         "For each sampled history the disk image after every prefix of its mutating FS calls (plus torn variants) is opened with the real constructors under catch_unwind and an allocation cap; open and every read query must succeed. Exhaustive over crash points within a history (quick: evenly sampled cap per history), histories sampled by seed.",
         "Crash = process death; database creation excluded. A worker that aborts or hangs inside a trial is attributed to that trial and reported as a violation.", "6/C02"),
 "C03": ("dbsim", "fault_enumeration", "deterministic simulation: crash at every mutating file-system call of seeded query histories and multi-query transactions; reopened state compared with the live pre/post dumps",
         "Same executions as C02; the complete dump of the reopened database must equal the dump taken from the live database immediately before or immediately after the interrupted query/transaction (order-sensitive), so every earlier step is preserved and no partial effect is visible.",
         "Expected states are dumps of the live database through the same read queries (no model). Crash = process death; creation excluded.", "6/C03"),
 "C13": ("dbsim", "exploration", "deterministic simulation: seeded abort injection (closure error after query k, logical failure after partial work) with before/after comparison of the complete observable state",
         "Seeded histories on all six variants; for every failed step the complete dump before and after must be equal up to the order of an element's properties.",
         "Abort by injected I/O error is decided by C32. Order-insensitive only where the statement allows it.", "6/C13"),
 "C19": ("dbsim", "exploration", "deterministic simulation: bounded liveness in simulated storage steps over seeded churn histories",
         "Every query of long insert/remove/re-insert histories over hashed keys runs under a budget of 2,000,000 storage calls counted by a StorageData wrapper; exceeding it is a violation naming the query. Budget is in simulated steps, never wall-clock.",
         "A query needing more than the budget is treated as non-terminating (measured legitimate maximum is ~1000x lower and reported).", "6/C19"),
 "C32": ("dbsim", "fault_enumeration", "deterministic simulation: one injected ENOSPC/EIO at every mutating file-system call of a target query, then further queries, close and reopen",
         "For each sampled history the target query is re-executed once per mutating FS call with that call failing; the query must report an error and leave no effect, later queries must behave per the model, and close+reopen must show every later successful mutation. Exhaustive over fault positions within the target (quick: even sample of 6), histories sampled.",
         "One failure per execution; failing call has no effect on the disk; reads never fail.", "6/C32"),

 "C05": ("dbsim", "exploration", "deterministic simulation: seeded histories interleaved with restart / variant-switch / maintenance events, extended dump compared before and after each event while a reference model keeps running",
         "Every maintenance event (clean restart, reopening with another file-backed variant, optimize_storage, shrink_to_fit on SimFs; backup+open, copy, rename+reopen on real scratch files) must leave the extended dump (all read queries plus ordered BFS/DFS traversals from and to every node, ids included) exactly as it was immediately before.",
         "Fault-free: restarts are clean. backup/copy/rename go through std::fs and therefore run on real scratch files.", "6/C05"),
 "C06": ("dbsim", "exploration", "deterministic simulation: one seeded history executed in lock-step on all six variants over SimFs with I/O noise and forced contended reads",
         "After every step success/failure, error text and returned ids are compared across DbMemory, DbFile, Db and the three DbAny kinds; every n-th step also the extended dumps.",
         "Fault-free configuration; equality is judged on observable results, not internal sizes.", "6/C06"),
 "C07": ("dbsim", "exploration", "deterministic simulation: stored-byte corruption injected into simulated disk images, opened and read by the real code in supervised worker processes with an allocation cap",
         "Structure-biased mutations (bit flips, truncation, overwritten index/size/length fields, forged or garbage logs, random files) of clean and crash-snapshot images; every trial must end in Ok or Err: a panic is caught with its site, an abort or over-cap allocation kills the worker and is attributed to the trial.",
         "Hangs are observations, not violations (the statement does not cover them). Known findings (record-table sizing, a test-pinned panic) are listed in known_findings.jsonl and cut/recognised by call site.", "6/C07"),

 "C23": ("dbsim", "exploration", "deterministic simulation: reader threads under shuttle's seeded random and PCT schedulers, scheduling points inside every simulated open/seek/read; second phase: the same scenario under Miri's seeded scheduler (preemption at any basic block; one -Zmiri-seed = one repeatable schedule)",
         "For seeded databases and read-query lists, 2-4 reader threads run under a controlled scheduler; every result must equal the sequential baseline and none may fail. Failures carry the shuttle schedule and replay exactly.",
         "Readers only (documented usage). Phase 1 (dbsim/shuttle): interleaving is controlled at simulated I/O calls; code between two I/O calls runs atomically. Phase 2 (engines/c23miri, tools/c23_miri.sh; 12 Miri schedules quick / 96 thorough) removes that restriction for a small fixed scenario; it is skipped with a note in the evidence if `cargo +nightly miri` is not available.", "6/C23"),

 "C27": ("raftsim", "exploration", "deterministic simulation: the real raft.rs under a discrete-event adversarial network and a virtual clock, invariant checked after every event",
         "Seeded fault schedules (per-message drop/duplicate/delay-reorder, partitions and heals, forward clock jumps, stalled nodes, client appends at every node that believes it leads) over 3- and 5-node clusters; after every event no two nodes may be, or ever have been, leader for the same term.",
         "No crash/restart (not in the statement; term and vote are not persisted). Log store is a 40-line model of ClusterStorage.", "6/C27"),
 "C28": ("raftsim", "exploration", "deterministic simulation: the real raft.rs under a discrete-event adversarial network and a virtual clock, invariant checked after every event",
         "Same simulator; after every event: no two nodes have committed different entries at one index, no node has committed two entries at one index, no commit index decreased. Payloads are unique per append. Runs are cut at the first recorded root-cause deviation (ghost monitor G3/G10) of the known finding.",
         "As C27. Known finding: no previous-entry check in the protocol (known_findings.jsonl); whether a run that touches it is that finding is decided per history against the recorded baseline of raft.rs (DESIGN.md section 15).", "6/C28"),
 "C29": ("raftsim", "exploration", "deterministic simulation: the real raft.rs under a discrete-event adversarial network and a virtual clock, invariant checked at every election",
         "Same simulator; whenever a node becomes leader of term T, every entry that a leader of an earlier term had committed must be in its log at the same index with the same term and payload.",
         "'Later leader' is read as 'leader of a later term' (leader completeness); a stale-term candidate that wins with a delayed vote after a newer leader committed is counted as an observation, not a violation (DESIGN.md).", "6/C29"),
 "C30": ("raftsim", "exploration", "deterministic simulation: bounded liveness of the real raft.rs in simulated time once faults stop",
         "Fault-free schedules from the initial state and from the state left by a seeded faulty prefix; 60 simulated seconds after the last fault exactly one leader must exist and entries appended at it afterwards must be committed on every node within a further 35 simulated seconds.",
         "Only timer configurations in which every node's election timeout fits inside the term timeout. Known findings: reconcile loop without progress (G10), election livelock (G11); decided per history against the recorded baseline of raft.rs (DESIGN.md section 15).", "6/C30"),

 "C31": ("srvsim", "exploration", "deterministic simulation: the real server in-process; seeded start order of the execution tasks of concurrently committed actions (H6 hook) compared with sequential execution",
         "2-6 conflicting cluster actions are committed before any execution task runs; the simulator draws how long each execution task waits before starting; announced execution order must be strictly increasing, results and observable state must equal sequential execution of the same log on a second server, and a restart must change nothing.",
         "Single-node server on a current_thread tokio runtime; only the task start order exposed by the hook is explored. Reference = same code executed one action at a time.", "6/C31"),

 "C25": ("srvsim", "exploration", "deterministic simulation: the real server in-process; seeded batches with an injected failing query / bad result reference / wrong endpoint and server restarts, compared step by step with a reference execution (state and audit)",
         "Batches are first executed as one agdb transaction on a local reference database, then the concrete queries are submitted to the real server's exec_mut/exec; refused batches must leave the read-back unchanged, applied ones must equal the reference, and the audit log must list exactly the mutating queries of applied batches in order with the submitting user, also after restarts.",
         "Reference = agdb's own transaction (decided by C13/C03/C32). Finite floats only (JSON cannot carry NaN). Property/edge order may differ after a refused batch (documented rollback behaviour).", "6/C25"),

 "C24": ("srvsim", "exploration", "deterministic simulation: the real server in-process; seeded multi-user request histories with clock jumps past token expiry (H5 hook) and server restarts, judged by a permission model",
         "Every request is issued with a seeded token (live, logged-out, expired, garbage, none); a model built from the documented permission table predicts allow/deny, the status class must agree, and after every request the observable state (users, databases, roles, node counts via a separate admin probe session) must equal the model.",
         "Expiry judged with a 50 s margin; requests whose outcome the documentation leaves open are not generated. Single-node server.", "6/C24"),

 "C04": ("dbsim", "exploration", "deterministic simulation: seeded storage histories with clean restarts, I/O noise and forced contended reads, checked operation by operation against a byte-level reference model",
         "Seeded search over storage-operation histories on all three back-ends; after every operation every live value is read back and compared with the model, removed values must be unreadable, and after defragmentation / restart the file must hold no unused space.",
         "Valid requests only; fault-free configuration (the crash configuration is C01). The model is 60 lines and mirrors the documented semantics of insert-at/move/resize.", "6/C04"),

 "C08": ("dbsim", "exploration", "deterministic simulation: seeded query histories with restarts, variant switches, maintenance, I/O noise and aborted transactions, compared with an abstract reference model after every step",
         "Seeded histories on all six variants; after every step node count, element set, edge endpoints and per-node edge counts are compared with an abstract multigraph, new ids are checked for sign and freshness, and invalid edge inserts must fail without effect - also across clean restarts, variant switches, optimize/shrink and rolled-back transactions.",
         "The model takes new ids and search targets from the database's own answers (checking sign/freshness), so only the abstract semantics are trusted. Crash/abort/I-O-failure configurations are decided by C02/C03/C13/C32.", "6/C08"),

 "C09": ("dbsim", "exploration", "deterministic simulation: seeded query histories with restarts, variant switches, maintenance, I/O noise and aborted transactions, compared with an abstract reference model after every step",
         "After every step, for every element, select values / keys / key count must equal the model's ordered key-value list bit-for-bit; selection by keys must follow the requested order and a missing key of a named element must fail - also across restarts and rolled-back transactions (after which only order may differ).",
         "The model takes new ids and search targets from the database's own answers (checking sign/freshness), so only the abstract semantics are trusted. Crash/abort/I-O-failure configurations are decided by C02/C03/C13/C32.", "6/C09"),

 "C10": ("dbsim", "exploration", "deterministic simulation: seeded query histories with restarts, variant switches, maintenance, I/O noise and aborted transactions, compared with an abstract reference model after every step",
         "After every step the alias bijection of the model is compared with select aliases (per node, all) and alias resolution; re-aliasing, stealing, removal, id reuse; empty aliases and aliases for edges must be rejected without effect - also across restarts and rolled-back transactions.",
         "The model takes new ids and search targets from the database's own answers (checking sign/freshness), so only the abstract semantics are trusted. Crash/abort/I-O-failure configurations are decided by C02/C03/C13/C32.", "6/C10"),

 "C11": ("dbsim", "exploration", "deterministic simulation: seeded query histories with restarts, variant switches, maintenance, I/O noise and aborted transactions, compared with an abstract reference model after every step",
         "After every step, for every indexed key and every value present anywhere in the database, the index search result and the index listing counts are compared with what the model derives from current values - across replacement, cascaded removal, rehash, rollback, restart and variant switch.",
         "The model takes new ids and search targets from the database's own answers (checking sign/freshness), so only the abstract semantics are trusted. Crash/abort/I-O-failure configurations are decided by C02/C03/C13/C32.", "6/C11"),

 "C12": ("dbsim", "exploration", "deterministic simulation: seeded query histories with restarts, variant switches, maintenance, I/O noise and aborted transactions, compared with an abstract reference model after every step",
         "Narrow claim (DESIGN.md 6/C12): values from a full-domain generator (all nine kinds, lengths around the 15/16 inline boundary, NaN payloads, signed zeros, extreme integers, multi-byte UTF-8) used as keys and values must read back bit-identical after clean restarts and reopening with another variant; the in-process read-back is a by-product.",
         "The model takes new ids and search targets from the database's own answers (checking sign/freshness), so only the abstract semantics are trusted. Crash/abort/I-O-failure configurations are decided by C02/C03/C13/C32.", "6/C12"),

 "C18": ("dbsim", "exploration", "deterministic simulation: seeded query histories with restarts, variant switches, maintenance, I/O noise and aborted transactions, compared with an abstract reference model after every step",
         "After every step the unconditional elements search must equal the model's live ids ordered by id magnitude, limit/offset slices must equal slices of that list, node/edge conditions filter it, and removed elements never appear - across id reuse, restarts and rolled-back transactions.",
         "The model takes new ids and search targets from the database's own answers (checking sign/freshness), so only the abstract semantics are trusted. Crash/abort/I-O-failure configurations are decided by C02/C03/C13/C32.", "6/C18"),
}

NA = {
 "C14": "Traversal result is a pure function of (graph, origin, direction); no crash, fault, clock or schedule can change it, so deterministic simulation adds nothing over input generation.",
 "C15": "Condition evaluation is a pure function of (graph, condition tree); deciding it needs a reference evaluator over generated inputs, i.e. property-based testing, not simulation.",
 "C16": "Limit/offset/ordering is a pure function of a search result; no simulator-controlled event (schedule, clock, fault, restart) is involved.",
 "C17": "Path optimality is a pure function of (graph, endpoints, conditions); nothing the simulator controls influences it.",
 "C20": "Serialisation round trip is a pure function of the value; no schedule, clock, I/O fault or interleaving in the statement.",
 "C21": "Deserialising a byte string is a pure function of the bytes; the stored-byte-corruption counterpart that is a fault is claimed as C07.",
 "C22": "Derive-macro round trip is a pure function of the value and the type definition.",
 "C26": "The mapping from database name to file path is a pure function of the name; no schedule, clock, fault or restart influences whether a path escapes the owner directory.",
}
NOT_YET = "Decidable by this technique (see DESIGN.md section 6) but its check is not built yet in this revision; not claimed until it is."

def main():
    props = [json.loads(l)["id"] for l in open("/verif/properties.jsonl")]
    checks = []
    for pid in props:
        if pid in CHECKS:
            eng, level, tech, text, note, ref = CHECKS[pid]
            checks.append({
                "property_id": pid,
                "quick_cmd": f"./check {pid} quick",
                "thorough_cmd": f"./check {pid} thorough",
                "evidence_file": f"/verif/evidence/{pid}.json",
                "replay_cmd_template": "./check --replay {path}",
                "engine": eng,
                "level_claimed": {"category": level, "text": text, "design_ref": f"DESIGN.md section {ref}"},
                "level_note": note,
                "technique": tech,
            })
    na = []
    for pid in props:
        if pid in CHECKS:
            continue
        na.append({"property_id": pid, "reason": NA.get(pid, NOT_YET)})
    used = sorted({c["engine"] for c in checks})
    m = {
        "version": 1,
        "setup_cmd": "cd /verif && ./setup.sh",
        "hooks": {
            "guard": "--cfg agdb_verif",
            "enable": "RUSTFLAGS='--cfg agdb_verif' via /verif/.cargo/config.toml ([build] rustflags), own target dir /verif/target; engines depend on /repo/agdb by path so every build uses /repo's working tree",
            "baseline_off_cmd": "cd /repo && cargo nextest run --workspace --no-fail-fast --tool-config-file pb:/w/lib/nextest.toml --profile pb --test-threads 8 --offline || cargo test --workspace --no-fail-fast --offline",
            "source_commits": hook_commits(),
            "add_only": True,
        },
        "engines": [{"name": e, "path": ENGINES[e][0], "serves_properties": [c["property_id"] for c in checks if c["engine"] == e], "kind_free_text": ENGINES[e][1]} for e in used]
        + [{"name": "c23miri", "path": ENGINES["c23miri"][0], "serves_properties": ["C23"], "kind_free_text": ENGINES["c23miri"][1]}],
        "checks": checks,
        "not_applicable": na,
        "notes": "All checks are deterministic simulations with fault injection (DESIGN.md). VERIF_SEED (default 1) determines every run; exit 0 held / 1 VIOLATION line / 2 harness error. Known findings: /verif/known_findings.jsonl.",
    }
    json.dump(m, open("/verif/MANIFEST.json", "w"), indent=1)
    print("MANIFEST.json:", len(checks), "checks,", len(na), "not applicable")

main()
