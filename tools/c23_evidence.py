#!/usr/bin/env python3
"""c23_evidence.py <output of c23_miri.sh> <tier>: records the Miri phase of C23 in evidence/C23.json
(the first phase, dbsim, has just written that file)."""
import json, re, sys, os
out, tier = sys.argv[1], sys.argv[2]
p = os.path.join(os.path.dirname(os.path.abspath(__file__)), "..", "evidence", "C23.json")
e = json.load(open(p))
m = re.search(r"MIRI-OK seeds=(\d+)(?: wall_s=(\d+))?", out)
phase = {
    "engine": "engines/c23miri under `cargo +nightly miri run`: real agdb (DbFile, FileStorage, queries) on an in-memory file system behind the cfg(agdb_verif) seam; 3 reader threads x 8 select queries against the results a single reader got",
    "scheduler": "Miri's seeded scheduler (-Zmiri-seed=k is one exactly repeatable schedule; preemption possible at every basic block, rate %s)" % os.environ.get("VERIF_MIRI_PREEMPTION", "0.05"),
    "also_reported": "undefined behaviour and data races found by Miri while only readers run",
}
if m:
    phase["schedules_run"] = int(m.group(1)); phase["wall_s"] = int(m.group(2) or 0); phase["result"] = "held"
elif "MIRI-SKIPPED" in out:
    phase["schedules_run"] = 0; phase["result"] = "skipped: " + out.split("MIRI-SKIPPED", 1)[1].strip()
elif "MIRI-VIOLATION" in out:
    phase["result"] = out.strip()[-300:]
    e["violations"] = int(e.get("violations", 0)) + 1
else:
    phase["result"] = "error: " + out.strip()[-300:]
e["coverage"]["miri_phase"] = phase
c = e["coverage"].setdefault("components_real", [])
if isinstance(c, list) and not any("c23miri" in x for x in c):
    c.append("second phase (engines/c23miri): the same real code under Miri, see coverage.miri_phase")
json.dump(e, open(p, "w"), indent=1)
