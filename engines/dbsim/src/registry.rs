//! The checks this engine serves.

use crate::common::*;
use serde_json::Value;

fn c01_gen(seed: u64, run: u64, tier: Tier) -> Value {
    serde_json::to_value(crate::c01::generate(seed, run, tier)).unwrap()
}
fn c01_exec(plan: &Value, t: &mut Trials) -> RunReport {
    let plan: crate::c01::Plan = serde_json::from_value(plan.clone()).expect("bad C01 plan");
    crate::c01::exec(&plan, t)
}

fn c04_gen(seed: u64, run: u64, tier: Tier) -> Value {
    serde_json::to_value(crate::c04::generate(seed, run, tier)).unwrap()
}
fn c04_exec(plan: &Value, t: &mut Trials) -> RunReport {
    let plan: crate::c04::Plan = serde_json::from_value(plan.clone()).expect("bad C04 plan");
    crate::c04::exec(&plan, t)
}

macro_rules! model_check {
    ($gen:ident, $exec:ident, $id:literal) => {
        fn $gen(seed: u64, run: u64, tier: Tier) -> Value {
            serde_json::to_value(crate::cmodel::generate($id, seed, run, tier)).unwrap()
        }
        fn $exec(plan: &Value, t: &mut Trials) -> RunReport {
            let plan: crate::cmodel::Plan = serde_json::from_value(plan.clone()).expect("bad plan");
            crate::cmodel::exec(&plan, t)
        }
    };
}
model_check!(c08_gen, c08_exec, "C08");
model_check!(c09_gen, c09_exec, "C09");
model_check!(c10_gen, c10_exec, "C10");
model_check!(c11_gen, c11_exec, "C11");
model_check!(c12_gen, c12_exec, "C12");
model_check!(c18_gen, c18_exec, "C18");

macro_rules! crash_check {
    ($gen:ident, $exec:ident, $id:literal) => {
        fn $gen(seed: u64, run: u64, tier: Tier) -> Value {
            serde_json::to_value(crate::ccrash::generate($id, seed, run, tier)).unwrap()
        }
        fn $exec(plan: &Value, t: &mut Trials) -> RunReport {
            let plan: crate::ccrash::Plan = serde_json::from_value(plan.clone()).expect("bad plan");
            crate::ccrash::exec(&plan, t)
        }
    };
}
crash_check!(c02_gen, c02_exec, "C02");
crash_check!(c03_gen, c03_exec, "C03");

const CRASH_RULE: &str = "histories = seeded query histories (single mutating queries and multi-query mutable transactions with a seeded abort point; profiles small / values / wide / churn) on DbFile, Db, DbAny(file) and DbAny(mapped) over SimFs, optionally including the closing defragmentation; evaluations = (crash point, constructor) pairs: the disk image after every prefix of the journalled mutating FS calls (plus torn variants of the next write), opened in a worker process with the real constructors under catch_unwind and an allocation cap, then read completely (every element, property, alias, index); C02 requires open and every read to succeed, C03 requires the dump to equal the live dump taken before or after the interrupted step; database creation is excluded; distinct_nontrivial = evaluations whose snapshot held a non-empty recovery log, counted once per distinct (program hash, crash point, constructor)";
const CRASH_ASSUME: &[&str] = &[
    "crash = process death: prefix of the issued calls plus at most one torn call; no Drop of the crashed instance runs",
    "database creation (the constructor's own writes on an empty file) is excluded: the statements speak of histories of mutating queries",
    "expected states are dumps of the live database taken through the same read queries, so no reference model is involved",
];

fn crash_def(id: &'static str, generate: fn(u64, u64, Tier) -> Value, exec: fn(&Value, &mut Trials) -> RunReport) -> CheckDef {
    CheckDef {
        id,
        level: "fault_enumeration",
        generate,
        exec,
        steps: "/steps",
        runs: |t| match t {
            Tier::Quick => 1200,
            Tier::Thorough => 20_000,
        },
        wall_cap_s: |t| match t {
            Tier::Quick => 150,
            Tier::Thorough => 1700,
        },
        rule: CRASH_RULE,
        assumptions: CRASH_ASSUME,
        real: DB_REAL,
        stub: FS_STUB,
        eval_unit: "(crash point, constructor) pairs",
    }
}

fn c13_gen(seed: u64, run: u64, tier: Tier) -> Value {
    serde_json::to_value(crate::cabort::generate(seed, run, tier)).unwrap()
}
fn c13_exec(plan: &Value, t: &mut Trials) -> RunReport {
    let plan: crate::cabort::Plan = serde_json::from_value(plan.clone()).expect("bad plan");
    crate::cabort::exec(&plan, t)
}

fn c32_gen(seed: u64, run: u64, tier: Tier) -> Value {
    serde_json::to_value(crate::cfault::generate(seed, run, tier)).unwrap()
}
fn c32_exec(plan: &Value, t: &mut Trials) -> RunReport {
    let plan: crate::cfault::Plan = serde_json::from_value(plan.clone()).expect("bad plan");
    crate::cfault::exec(&plan, t)
}

fn c19_gen(seed: u64, run: u64, tier: Tier) -> Value {
    serde_json::to_value(crate::cterm::generate(seed, run, tier)).unwrap()
}
fn c19_exec(plan: &Value, t: &mut Trials) -> RunReport {
    let plan: crate::cterm::Plan = serde_json::from_value(plan.clone()).expect("bad plan");
    crate::cterm::exec(&plan, t)
}

fn c05_gen(seed: u64, run: u64, tier: Tier) -> Value {
    serde_json::to_value(crate::cmaint::generate05(seed, run, tier)).unwrap()
}
fn c05_exec(plan: &Value, t: &mut Trials) -> RunReport {
    let plan: crate::cmaint::Plan05 = serde_json::from_value(plan.clone()).expect("bad plan");
    crate::cmaint::exec05(&plan, t)
}
fn c06_gen(seed: u64, run: u64, tier: Tier) -> Value {
    serde_json::to_value(crate::cmaint::generate06(seed, run, tier)).unwrap()
}
fn c06_exec(plan: &Value, t: &mut Trials) -> RunReport {
    let plan: crate::cmaint::Plan06 = serde_json::from_value(plan.clone()).expect("bad plan");
    crate::cmaint::exec06(&plan, t)
}

fn c07_gen(seed: u64, run: u64, tier: Tier) -> Value {
    serde_json::to_value(crate::ccorrupt::generate(seed, run, tier)).unwrap()
}
fn c07_exec(plan: &Value, t: &mut Trials) -> RunReport {
    let plan: crate::ccorrupt::Plan = serde_json::from_value(plan.clone()).expect("bad plan");
    crate::ccorrupt::exec(&plan, t)
}

fn c23_gen(seed: u64, run: u64, tier: Tier) -> Value {
    serde_json::to_value(crate::cconc::generate(seed, run, tier)).unwrap()
}
fn c23_exec(plan: &Value, t: &mut Trials) -> RunReport {
    let plan: crate::cconc::Plan = serde_json::from_value(plan.clone()).expect("bad plan");
    crate::cconc::exec(&plan, t)
}

const MODEL_RULE: &str = "histories = seeded sequences of public-API queries (node/edge/value/alias/index inserts, updates, removals by id, alias and search, explicit transactions with a seeded abort point) executed on one of the six database variants over SimFs, half of them interleaved with clean restarts (only durable state survives), reopening with another file-backed variant, optimize_storage and shrink_to_fit, plus benign I/O noise and the forced contended-read path; evaluations = points at which the complete observable state (every read query over every element, alias, index and the elements search, plus slice/selection probes) was compared with the abstract model; distinct_nontrivial = distinct histories (program hash) containing at least one removal and then either an id reuse or a hash-table rehash (probe)";
const MODEL_ASSUME: &[&str] = &[
    "the model takes new element ids from the database's answer (checking sign and freshness) and search targets from the database's own search result, so it carries no id-allocation or search semantics",
    "fault-free and with-restarts configurations only; crash, abort and I/O-failure configurations are covered by C02/C03/C13/C32",
];
const DB_REAL: &[&str] = &["agdb: DbImpl, queries, TransactionMut, DbGraph, DbIndexedMap, DbIndexes, DbKeyValues, MultiMapStorage, DbVec, Storage, FileStorage, FileStorageMemoryMapped, MemoryStorage, AnyStorage, WriteAheadLog"];

fn model_def(id: &'static str, generate: fn(u64, u64, Tier) -> Value, exec: fn(&Value, &mut Trials) -> RunReport) -> CheckDef {
    CheckDef {
        id,
        level: "exploration",
        generate,
        exec,
        steps: "/steps",
        runs: |t| match t {
            Tier::Quick => 12_000,
            Tier::Thorough => 400_000,
        },
        wall_cap_s: |t| match t {
            Tier::Quick => 150,
            Tier::Thorough => 1500,
        },
        rule: MODEL_RULE,
        assumptions: MODEL_ASSUME,
        real: DB_REAL,
        stub: FS_STUB,
        eval_unit: "full-state comparisons with the model",
    }
}

pub const FS_STUB: &[&str] = &["disk: in-memory SimFs behind the cfg(agdb_verif) File/OpenOptions seam (crash = prefix of mutating calls + optional torn last write)"];

pub fn all() -> Vec<CheckDef> {
    let mut v = all_storage();
    v.push(crash_def("C02", c02_gen, c02_exec));
    v.push(crash_def("C03", c03_gen, c03_exec));
    v.push(CheckDef {
        id: "C13",
        level: "exploration",
        generate: c13_gen,
        exec: c13_exec,
        steps: "/steps",
        runs: |t| match t {
            Tier::Quick => 30_000,
            Tier::Thorough => 600_000,
        },
        wall_cap_s: |t| match t {
            Tier::Quick => 150,
            Tier::Thorough => 1500,
        },
        rule: "histories = seeded query histories on all six variants in which the simulator chooses the abort point: explicit transactions of 1-6 mutating queries whose closure returns an error after query k, queries inside a transaction that fail logically (missing element, empty alias, length mismatch, existing index) after earlier queries succeeded, and single queries that fail after partial work; evaluations = failed steps, each judged by comparing the complete observable state (order-insensitive for property lists, as the statement allows) before and after; distinct_nontrivial = failed steps before which at least one query of the transaction had succeeded or at least one file-system write had been issued, counted once per distinct (program hash, step)",
        assumptions: &["abort by injected storage I/O error is decided by C32, not here", "order of an element's properties may differ after rollback (stated by the property); everything else must be identical"],
        real: DB_REAL,
        stub: FS_STUB,
        eval_unit: "failed steps compared before/after",
    });
    v.push(CheckDef {
        id: "C32",
        level: "fault_enumeration",
        generate: c32_gen,
        exec: c32_exec,
        steps: "/suffix",
        runs: |t| match t {
            Tier::Quick => 15_000,
            Tier::Thorough => 40_000,
        },
        wall_cap_s: |t| match t {
            Tier::Quick => 150,
            Tier::Thorough => 1700,
        },
        rule: "histories = seeded prefix of successful queries, one target query, 3-10 further queries, on the four file-backed variants over SimFs; evaluations = (history, fault position) executions: exactly one ENOSPC/EIO at the n-th mutating file-system call (log append, data write, truncate) of the target query, for every n (thorough) or an even sample of 6 (quick); judged: the target reports an error, the observable state equals the state before it, later queries behave per the model, close+reopen succeeds and shows every later successful mutation; distinct_nontrivial = executions whose failure came after at least one successful write of the target query, per distinct (program hash, position)",
        assumptions: &["one failure per execution; the failing call has no effect on the simulated disk (ENOSPC/EIO semantics)", "reads never fail"],
        real: DB_REAL,
        stub: FS_STUB,
        eval_unit: "(history, fault position) executions",
    });
    v.push(CheckDef {
        id: "C19",
        level: "exploration",
        generate: c19_gen,
        exec: c19_exec,
        steps: "/steps",
        runs: |t| match t {
            Tier::Quick => 8000,
            Tier::Thorough => 60_000,
        },
        wall_cap_s: |t| match t {
            Tier::Quick => 150,
            Tier::Thorough => 1700,
        },
        rule: "histories = seeded churn histories (100-2000 steps) cycling fresh aliases and fresh indexed values over few elements, alias/value/index removals and re-insertions, around the 64-slot minimum table and across growth, on DbImpl over a counting StorageData wrapper around MemoryStorage, FileStorage and FileStorageMemoryMapped; evaluations = queries executed under a budget of 2,000,000 storage calls each (bounded liveness in simulated steps, not wall-clock; the largest legitimate query observed is reported as counters.max_storage_calls_in_one_query), plus a full read of the database every 50 steps under the same rule; distinct_nontrivial = distinct histories (program hash) in which an insertion probed over at least 64 tombstones (probe multi_map.insert_or_replace.over_deleted)",
        assumptions: &["a query that needs more than 2,000,000 storage calls is treated as not terminating; the measured maximum of legitimate queries is three orders of magnitude lower"],
        real: DB_REAL,
        stub: &["disk: in-memory SimFs", "StorageData: counting pass-through wrapper (public DbImpl::with_data seam)"],
        eval_unit: "queries executed under the step budget",
    });
    v.push(CheckDef {
        id: "C05",
        level: "exploration",
        generate: c05_gen,
        exec: c05_exec,
        steps: "/steps",
        runs: |t| match t {
            Tier::Quick => 8000,
            Tier::Thorough => 300_000,
        },
        wall_cap_s: |t| match t {
            Tier::Quick => 150,
            Tier::Thorough => 1500,
        },
        rule: "histories = seeded query histories interleaved with maintenance events: clean restart (only durable state survives), reopening with another file-backed variant, optimize_storage, shrink_to_fit on SimFs; and, on real scratch files (std::fs::copy/rename are not behind the seam), backup + opening the backup with any variant (the in-memory variant via its backup file), copy, rename + reopen under the new name; evaluations = (maintenance event, resulting handle) pairs whose extended dump (every read query plus the ordered result of breadth-first and depth-first traversals from and to every node, ids included) was compared order-sensitively with the dump taken immediately before the event, while the reference model keeps running across the event; distinct_nontrivial = those on a non-empty database, per distinct (program hash, event)",
        assumptions: &["fault-free: restarts are clean; crash during maintenance is not part of the statement", "backup/copy/rename run on real files under /verif/target/tmp (removed after the run)"],
        real: DB_REAL,
        stub: &["disk: in-memory SimFs (restart/optimize/shrink/variant-switch configurations); real scratch files for backup/copy/rename configurations"],
        eval_unit: "(maintenance event, handle) comparisons",
    });
    v.push(CheckDef {
        id: "C06",
        level: "exploration",
        generate: c06_gen,
        exec: c06_exec,
        steps: "/steps",
        runs: |t| match t {
            Tier::Quick => 6000,
            Tier::Thorough => 150_000,
        },
        wall_cap_s: |t| match t {
            Tier::Quick => 150,
            Tier::Thorough => 1500,
        },
        rule: "one seeded query history executed in lock-step on DbMemory, DbFile, Db, DbAny(memory), DbAny(file), DbAny(mapped) (file-backed ones on separate SimFs paths, with benign I/O noise and the forced contended-read path); evaluations = steps after which success/failure, error text and returned ids of every variant were compared, and every n-th step also the extended dumps (all read queries + ordered traversals); distinct_nontrivial = dump comparisons on a non-empty database per distinct (program hash, step)",
        assumptions: &["fault-free configuration", "result equality is judged on success/failure, error description, returned element ids and the complete read-back, not on internal sizes"],
        real: DB_REAL,
        stub: FS_STUB,
        eval_unit: "lock-step steps compared across six variants",
    });
    v.push(CheckDef {
        id: "C07",
        level: "exploration",
        generate: c07_gen,
        exec: c07_exec,
        steps: "/muts",
        runs: |t| match t {
            Tier::Quick => 700,
            Tier::Thorough => 60_000,
        },
        wall_cap_s: |t| match t {
            Tier::Quick => 150,
            Tier::Thorough => 1700,
        },
        rule: "base images = the simulated disk after a seeded short history, either closed cleanly or as a crash snapshot with a live recovery log; faults = stored-byte mutations biased to structure (record index/size fields, the root index record, vector length prefixes, value-type bytes): 1-8 bit flips, truncation, an aligned 8-byte field overwritten with 0/1/len±1/2^32/2^63/u64::MAX, zero/0xFF/random fills, a record header copied over another, log removed / garbage / forged records with huge positions and lengths, wholly random files; evaluations = (mutated image, constructor) trials: Db::new and DbFile::new over SimFs (DbMemory::new on a real scratch copy in 1/6 of the runs), then every read query; a panic is caught and reported with its site, an abort or a single allocation above 96 MiB kills the worker and is attributed to the trial by the supervisor; distinct_nontrivial = trials whose mutation changed the image and whose outcome differs from the unmutated image's (the loader demonstrably read the damaged bytes)",
        assumptions: &["a hang (3,000,000 storage calls without returning) is recorded as an observation, not a C07 violation: the statement covers panics, aborts and enormous allocations", "the simulated disk refuses files above 64 MiB (EFBIG), as a small real disk would"],
        real: DB_REAL,
        stub: FS_STUB,
        eval_unit: "(mutated image, constructor) trials",
    });
    v.push(CheckDef {
        id: "C23",
        level: "exploration",
        generate: c23_gen,
        exec: c23_exec,
        steps: "/reads",
        runs: |t| match t {
            Tier::Quick => 4000,
            Tier::Thorough => 8000,
        },
        wall_cap_s: |t| match t {
            Tier::Quick => 150,
            Tier::Thorough => 1700,
        },
        rule: "a seeded database on DbFile / DbAny(file) over SimFs; a seeded list of read queries (select values/keys/key count/aliases/all aliases/indexes/node count/edge count, elements search with limit/offset, BFS/DFS, index search, read transactions of several queries) whose sequential results are recorded first; 2-4 shuttle-scheduled reader threads each run a seeded subsequence under RwLock::read with a scheduling point inside every simulated open/seek/read; schedulers: seeded random and PCT depth 2-3; evaluations = schedules executed, every result compared with its sequential baseline; distinct_nontrivial = distinct file-system call interleavings (event-log hash) among schedules in which the contended path (fresh file handle) ran at least once",
        assumptions: &["readers only (the documented usage: RwLock read guards); writers are excluded by the lock", "shuttle controls the interleaving at simulated I/O calls; code between two I/O calls runs atomically"],
        real: DB_REAL,
        stub: &["disk: in-memory SimFs with a scheduling point in every open/seek/read", "thread scheduler: shuttle 0.9.3 (random, PCT); RwLock: shuttle::sync::RwLock"],
        eval_unit: "schedules",
    });
    v.push(model_def("C08", c08_gen, c08_exec));
    v.push(model_def("C09", c09_gen, c09_exec));
    v.push(model_def("C10", c10_gen, c10_exec));
    v.push(model_def("C11", c11_gen, c11_exec));
    v.push(model_def("C12", c12_gen, c12_exec));
    v.push(model_def("C18", c18_gen, c18_exec));
    v
}

fn all_storage() -> Vec<CheckDef> {
    vec![CheckDef {
        id: "C01",
        level: "fault_enumeration",
        generate: c01_gen,
        exec: c01_exec,
        steps: "/ops",
        runs: |t| match t {
            Tier::Quick => 40_000,
            Tier::Thorough => 150_000,
        },
        wall_cap_s: |t| match t {
            Tier::Quick => 120,
            Tier::Thorough => 1500,
        },
        rule: "programs = seeded storage-operation sequences (insert/insert-at/replace/resize/move/remove/optimize in 0-4 deep nested transactions, drop-with-open-transaction) on FileStorage and FileStorageMemoryMapped over SimFs; evaluations = crash points (every prefix of the journalled mutating FS calls, torn variants of the next write, second crashes inside recovery), each recovered by the real constructors and compared byte-for-byte with the data file at the last outermost commit; distinct_nontrivial = crash points whose snapshot held a non-empty recovery log (recovery had real work), counted once per distinct (program hash, crash point)",
        assumptions: &[
            "crash = process death: the disk holds a prefix of the issued calls plus at most one torn call (FileStorage never syncs, so power-loss reordering is out of scope)",
            "SimFs models a POSIX file: sparse extension zero-fills, set_len truncates/extends, one cursor per handle",
        ],
        real: &["agdb::storage::Storage", "FileStorage", "FileStorageMemoryMapped", "WriteAheadLog", "StorageRecords"],
        stub: FS_STUB,
        eval_unit: "crash points",
    },
    CheckDef {
        id: "C04",
        level: "exploration",
        generate: c04_gen,
        exec: c04_exec,
        steps: "/ops",
        runs: |t| match t {
            Tier::Quick => 100_000,
            Tier::Thorough => 1_000_000,
        },
        wall_cap_s: |t| match t {
            Tier::Quick => 120,
            Tier::Thorough => 1500,
        },
        rule: "histories = seeded sequences (3-300 ops) of valid insert/insert-at (inside, at, beyond the end)/replace/resize/move/remove/optimize/clean-restart on MemoryStorage, FileStorage and FileStorageMemoryMapped, with benign I/O noise (short reads/writes, EINTR) and the contended-read path forced by buggify; evaluations = operations after which every live index is read back and compared with a byte-level model and every removed index must be unreadable (plus length == packed size after each defragmentation and after the final restart); distinct_nontrivial = distinct histories (program hash) that removed at least one value and then reused freed space (take_free / enlarge_in_place / enlarge_move_to probes fired)",
        assumptions: &[
            "only valid requests are issued (mutating a removed index is outside the statement; see DESIGN.md section 9)",
            "fault-free configuration: restarts are clean (drop + reopen), no crash, no failing write",
        ],
        real: &["agdb::storage::Storage", "StorageRecords", "MemoryStorage", "FileStorage", "FileStorageMemoryMapped", "WriteAheadLog"],
        stub: FS_STUB,
        eval_unit: "operations checked against the model",
    }]
}

pub fn find(id: &str) -> Option<CheckDef> {
    all().into_iter().find(|c| c.id == id)
}
