//! The checks this engine serves.

use crate::common::*;
use serde_json::Value;

pub struct CheckDef {
    pub id: &'static str,
    pub level: &'static str,
    pub generate: fn(u64, u64, Tier) -> Value,
    pub exec: fn(&Value, &mut Trials) -> RunReport,
    /// JSON pointer of the step list the shrinker reduces
    pub steps: &'static str,
    pub runs: fn(Tier) -> u64,
    pub wall_cap_s: fn(Tier) -> u64,
    pub rule: &'static str,
    pub assumptions: &'static [&'static str],
    pub real: &'static [&'static str],
    pub stub: &'static [&'static str],
    pub eval_unit: &'static str,
}

fn c01_gen(seed: u64, run: u64, tier: Tier) -> Value {
    serde_json::to_value(crate::c01::generate(seed, run, tier)).unwrap()
}
fn c01_exec(plan: &Value, t: &mut Trials) -> RunReport {
    let plan: crate::c01::Plan = serde_json::from_value(plan.clone()).expect("bad C01 plan");
    crate::c01::exec(&plan, t)
}

pub const FS_STUB: &[&str] = &["disk: in-memory SimFs behind the cfg(agdb_verif) File/OpenOptions seam (crash = prefix of mutating calls + optional torn last write)"];

pub fn all() -> Vec<CheckDef> {
    vec![CheckDef {
        id: "C01",
        level: "fault_enumeration",
        generate: c01_gen,
        exec: c01_exec,
        steps: "/ops",
        runs: |t| match t {
            Tier::Quick => 3000,
            Tier::Thorough => 150_000,
        },
        wall_cap_s: |t| match t {
            Tier::Quick => 120,
            Tier::Thorough => 1500,
        },
        rule: "programs = seeded storage-operation sequences (insert/insert-at/replace/resize/move/remove/optimize in 0-4 deep nested transactions, drop-with-open-transaction) on FileStorage and FileStorageMemoryMapped over SimFs; evaluations = crash points (every prefix of the journalled mutating FS calls, torn variants of the next write, second crashes inside recovery), each recovered by the real constructors and compared byte-for-byte with the data file at the last outermost commit; distinct_nontrivial = crash points whose snapshot held a non-empty recovery log (recovery had real work), counted once per distinct (program hash, crash point)",
        assumptions: &[
            "crash = process death: the disk holds a prefix of the issued calls plus at most one torn call (FileStorage never syncs, so power-loss reordering is out of scope)",
            "SimFs models a POSIX file: sparse extension zero-fills, set_len truncates/extends, one cursor per handle",
        ],
        real: &["agdb::storage::Storage", "FileStorage", "FileStorageMemoryMapped", "WriteAheadLog", "StorageRecords"],
        stub: FS_STUB,
        eval_unit: "crash points",
    }]
}

pub fn find(id: &str) -> Option<CheckDef> {
    all().into_iter().find(|c| c.id == id)
}
