//! C01 — log recovery restores the last committed storage content at every crash point.

use crate::common::*;
use crate::sexec::*;
use crate::simfs::{self, EvOp, Event, Image, SimFs};
use crate::sprog::{self, Backend, SOp};
use agdb::{FileStorage, FileStorageMemoryMapped, StorageData};
use serde::{Deserialize, Serialize};
use simcore::{Fnv, Rng};

pub const DATA: &str = "/sim/db";
pub const WAL: &str = "/sim/.db";

#[derive(Clone, Debug, Serialize, Deserialize)]
pub struct Plan {
    pub backend: Backend,
    /// benign I/O noise: every n-th read short / call EINTR / write short (0 = off)
    pub noise: [u64; 3],
    pub torn: bool,
    /// evaluate a second crash inside recovery at every n-th crash point (0 = off)
    pub double_crash: u64,
    /// cap on crash points evaluated (0 = all)
    pub max_points: u64,
    pub ops: Vec<SOp>,
}

pub fn generate(seed: u64, run: u64, tier: Tier) -> Plan {
    let mut rng = Rng::derive(seed, run, 1);
    let long = rng.chance(1, 5);
    let cfg = sprog::GenCfg {
        min_ops: 1,
        max_ops: if long { 25 } else { 8 },
        transactions: rng.chance(3, 4),
        reopen: false,
        drop_open: rng.chance(1, 3),
    };
    let ops = sprog::generate(&mut rng, &cfg);
    let noise_on = rng.chance(1, 4);
    Plan {
        backend: if rng.chance(1, 3) { Backend::Mapped } else { Backend::File },
        noise: if noise_on { [rng.range(2, 9), rng.range(0, 1) * rng.range(5, 17), rng.range(2, 7)] } else { [0, 0, 0] },
        torn: rng.chance(1, 2),
        double_crash: match tier {
            Tier::Quick => if rng.chance(1, 4) { 7 } else { 0 },
            Tier::Thorough => if rng.chance(1, 2) { 1 } else { 3 },
        },
        max_points: match tier {
            Tier::Quick => 400,
            Tier::Thorough => 0,
        },
        ops,
    }
}

fn data_of(img: &Image) -> Vec<u8> {
    img.get(DATA).cloned().unwrap_or_default()
}

fn wal_empty(img: &Image) -> bool {
    img.get(WAL).map(|w| w.is_empty()).unwrap_or(true)
}

struct Commit {
    events: usize,
    data: Vec<u8>,
}

/// Opens the image with the real recovery code and returns (data file afterwards,
/// log empty afterwards, journal of the mutating calls recovery itself issued).
fn recover(img: &Image, backend: Backend, journal: bool) -> Result<(Vec<u8>, bool, Vec<Event>), String> {
    let fs = SimFs::from_image(img.clone());
    fs.record(journal);
    fs.install();
    let mut rj = vec![];
    let r = (|| -> Result<(), String> {
        match backend {
            Backend::Mapped => {
                let s = FileStorageMemoryMapped::new(DATA).map_err(|e| format!("open failed: {}", e.description))?;
                let len = s.len();
                let mem = s.read(0, len).map_err(|e| format!("read failed: {}", e.description))?.to_vec();
                rj = fs.take_journal();
                fs.record(false);
                drop(s);
                if mem != fs.file(DATA).unwrap_or_default() {
                    return Err("memory copy differs from file after recovery".into());
                }
            }
            _ => {
                let s = FileStorage::new(DATA).map_err(|e| format!("open failed: {}", e.description))?;
                rj = fs.take_journal();
                fs.record(false);
                drop(s);
            }
        }
        Ok(())
    })();
    SimFs::uninstall();
    r?;
    let after = fs.image();
    Ok((data_of(&after), wal_empty(&after), rj))
}

/// Logical content of a data image via the real loader: (len, [(index, bytes)]).
fn logical(data: &[u8]) -> Result<(u64, Vec<(u64, Vec<u8>)>), String> {
    let mut img = Image::new();
    img.insert(DATA.to_string(), data.to_vec());
    let fs = SimFs::from_image(img);
    fs.install();
    let r = (|| {
        let s = AnyStore::open(Backend::File, DATA).map_err(|e| e.description)?;
        let mut v = vec![];
        for (i, _, _) in s.records() {
            v.push((i, s.value_as_bytes(i).map_err(|e| e.description)?));
        }
        v.sort();
        Ok((s.len(), v))
    })();
    SimFs::uninstall();
    r
}

fn judge(recovered: &[u8], wal_clear_after: bool, pre: &[u8], post: Option<&[u8]>, snapshot_wal_empty: bool) -> Option<(String, String)> {
    if !wal_clear_after {
        return Some(("wal-not-cleared-after-recovery".into(), "recovery left a non-empty log".into()));
    }
    if recovered == pre {
        return None;
    }
    if let Some(post) = post
        && snapshot_wal_empty
        && recovered == post
    {
        return None;
    }
    // bytes differ: classify by logical content
    let lr = logical(recovered);
    let lp = logical(pre);
    let detail = match (&lr, &lp) {
        (Err(e), _) => format!("recovered file does not load: {e}"),
        (Ok(a), Ok(b)) if a == b => "bytes differ from committed image (logical content equal)".to_string(),
        (Ok(a), Ok(b)) => {
            let mut d = format!("len {} vs committed {}", a.0, b.0);
            for (i, v) in &b.1 {
                match a.1.iter().find(|(j, _)| j == i) {
                    None => d += &format!("; index {i} missing"),
                    Some((_, w)) if w != v => d += &format!("; index {i} differs ({} vs {} bytes)", w.len(), v.len()),
                    _ => {}
                }
            }
            for (i, _) in &a.1 {
                if !b.1.iter().any(|(j, _)| j == i) {
                    d += &format!("; index {i} resurrected");
                }
            }
            d
        }
        (Ok(_), Err(e)) => format!("harness: committed image does not load: {e}"),
    };
    Some(("recovered-content-differs".into(), detail))
}

pub fn exec(plan: &Plan, trials: &mut Trials) -> RunReport {
    let mut rep = RunReport::default();
    let mut ph = Fnv::new();
    ph.str(&serde_json::to_string(plan).unwrap());
    rep.prog_hash = ph.get();

    // ---- live execution, journalled
    let fs = SimFs::new();
    fs.record(true);
    fs.noise(plan.noise[0], plan.noise[1], plan.noise[2]);
    fs.install();
    let mut commits: Vec<Commit> = vec![Commit { events: 0, data: vec![] }];
    let mut live_viol: Option<Viol> = None;
    let live = catch(|| {
        let mut store = match AnyStore::open(plan.backend, DATA) {
            Ok(s) => s,
            Err(e) => return Err(format!("create failed: {}", e.description)),
        };
        let mut st = ProgState::default();
        let mut cut = false;
        commits.push(Commit { events: fs.journal_len(), data: fs.file(DATA).unwrap_or_default() });
        for op in &plan.ops {
            match exec_op(&mut store, &mut st, op) {
                OpResult::Structural => {
                    if matches!(op, SOp::DropOpen) {
                        drop(store);
                        let now = fs.file(DATA).unwrap_or_default();
                        let last = &commits.last().unwrap().data;
                        if &now != last || !fs.file(WAL).unwrap_or_default().is_empty() {
                            live_viol = Some(Viol {
                                property: "C01".into(),
                                class: "drop-unfinished-not-restored".into(),
                                detail: format!("after dropping the storage with {} open transaction(s) the file differs from the last committed content", st.txns.len()),
                                trial: 0,
                            });
                        }
                        st.txns.clear();
                        if let Some((m, nslots)) = st.saved.first().cloned() {
                            st.model = m;
                            st.slots.truncate(nslots);
                        }
                        st.saved.clear();
                        store = match AnyStore::open(plan.backend, DATA) {
                            Ok(s) => s,
                            Err(e) => return Err(format!("reopen after drop failed: {}", e.description)),
                        };
                        // the in-memory slot table stays valid: indexes persist in the file
                        commits.push(Commit { events: fs.journal_len(), data: fs.file(DATA).unwrap_or_default() });
                    }
                }
                OpResult::Err(_) => {
                    // a request the model considers valid failed: C04 judges that; C01 stops the
                    // program here (the failed operation leaves its storage transaction open)
                    cut = true;
                    break;
                }
                _ => {
                    if st.txns.is_empty() {
                        let ev = fs.journal_len();
                        if ev > commits.last().unwrap().events {
                            commits.push(Commit { events: ev, data: fs.file(DATA).unwrap_or_default() });
                        }
                    }
                }
            }
        }
        let journal = fs.take_journal();
        fs.record(false);
        std::mem::forget(store); // the process "dies" here: no Drop runs
        Ok((journal, cut, st.skipped))
    });
    SimFs::uninstall();
    rep.log_hash = fs.hash();
    let c = fs.counters();
    rep.count("fs.writes", c.writes);
    rep.count("fs.set_lens", c.set_lens);
    rep.count("fault.short_write", c.faults_short_write);
    rep.count("fault.eintr", c.faults_eintr);
    rep.count("fault.short_read", c.faults_short_read);
    rep.probes();
    let journal = match live {
        Caught::Ok(Ok((j, cut, skipped))) => {
            rep.count("ops.cut_at_unexpected_error", cut as u64);
            rep.count("ops.skipped_invalid", skipped);
            j
        }
        Caught::Ok(Err(e)) => {
            rep.viols.push(Viol { property: "HARNESS".into(), class: "live-error".into(), detail: e, trial: 0 });
            return rep;
        }
        Caught::Panic(p) => {
            rep.viols.push(Viol { property: "HARNESS".into(), class: format!("live-{}", panic_class(&p)), detail: p, trial: 0 });
            return rep;
        }
        Caught::Budget => return rep,
    };
    if let Some(v) = live_viol {
        rep.viols.push(v);
    }

    // ---- crash-point enumeration
    let total = journal.len();
    let stride = if plan.max_points != 0 && (total as u64) > plan.max_points { (total as u64).div_ceil(plan.max_points) as usize } else { 1 };
    let mut img = Image::new();
    let mut ci = 0usize; // index of last commit with events <= k
    for k in 0..=total {
        if k > 0 {
            simfs::apply_event(&mut img, &journal[k - 1]);
        }
        while ci + 1 < commits.len() && commits[ci + 1].events <= k {
            ci += 1;
        }
        if stride > 1 && k % stride != 0 && k != total {
            continue;
        }
        let pre = &commits[ci].data;
        let post = commits.get(ci + 1).map(|c| c.data.as_slice());
        // variants: exact prefix, plus torn variants of the next event
        let mut variants: Vec<(Image, String)> = vec![(img.clone(), format!("crash after event {k}/{total}"))];
        if plan.torn
            && k < total
            && let EvOp::Write { data, .. } = &journal[k].op
            && data.len() > 1
        {
            let mut cuts = vec![1, data.len() / 2, data.len() - 1];
            cuts.dedup();
            for cut in cuts {
                if cut == 0 || cut >= data.len() {
                    continue;
                }
                let mut t = img.clone();
                simfs::apply_torn(&mut t, &journal[k], cut);
                variants.push((t, format!("crash after event {k}/{total} + {cut}/{} bytes of {} write", data.len(), if journal[k].path == WAL { "log" } else { "data" })));
                rep.count(if journal[k].path == WAL { "fault.torn_log_write" } else { "fault.torn_data_write" }, 1);
            }
        }
        for (vi, (snap, what)) in variants.iter().enumerate() {
            let Some(trial) = trials.begin() else { continue };
            rep.evals += 1;
            rep.count("fault.crash", 1);
            let snap_wal_empty = wal_empty(snap);
            if !snap_wal_empty {
                rep.nontrivial += 1;
            }
            let want_rj = plan.double_crash != 0 && vi == 0 && k % plan.double_crash as usize == 0;
            let out = catch(|| recover(snap, plan.backend, want_rj));
            let verdict = match out {
                Caught::Ok(Ok((data, wal_clear, rj))) => {
                    let v = judge(&data, wal_clear, pre, post, snap_wal_empty);
                    if v.is_none() && want_rj && rj.len() > 1 {
                        // second crash inside recovery
                        let mut img2 = snap.clone();
                        for (j, ev) in rj.iter().enumerate() {
                            if j > 0 {
                                simfs::apply_event(&mut img2, &rj[j - 1]);
                            }
                            let _ = ev;
                            if j == 0 {
                                continue;
                            }
                            rep.evals += 1;
                            rep.count("fault.crash_in_recovery", 1);
                            match catch(|| recover(&img2, plan.backend, false)) {
                                Caught::Ok(Ok((d2, wc2, _))) => {
                                    if let Some((c, d)) = judge(&d2, wc2, pre, post, snap_wal_empty && wal_empty(&img2)) {
                                        rep.viols.push(Viol { property: "C01".into(), class: format!("double-crash:{c}"), detail: format!("{what}, then crash after recovery event {j}/{}: {d}", rj.len()), trial });
                                        break;
                                    }
                                }
                                Caught::Ok(Err(e)) => {
                                    rep.viols.push(Viol { property: "C01".into(), class: "double-crash:recovery-error".into(), detail: format!("{what}, then crash after recovery event {j}: {e}"), trial });
                                    break;
                                }
                                Caught::Panic(p) => {
                                    rep.viols.push(Viol { property: "C01".into(), class: format!("double-crash:{}", panic_class(&p)), detail: format!("{what}: {p}"), trial });
                                    break;
                                }
                                Caught::Budget => {}
                            }
                        }
                    }
                    v
                }
                Caught::Ok(Err(e)) => Some(("recovery-error".to_string(), e)),
                Caught::Panic(p) => Some((panic_class(&p), p)),
                Caught::Budget => None,
            };
            if let Some((class, detail)) = verdict {
                rep.viols.push(Viol { property: "C01".into(), class, detail: format!("{what}: {detail}"), trial });
            }
        }
    }
    rep
}
