//! C08-C12, C18 — the reference-model checks. One simulator, several oracles: each check
//! reports only the discrepancies that contradict its own property (tags), with its own workload mix.
//! Configurations (reported separately in the evidence): fault-free; with restarts / variant
//! switches / maintenance in between.

use crate::common::*;
use crate::dbexec::*;
use crate::dbmodel::*;
use crate::dbprog::*;
use crate::simfs::SimFs;
use dbsim::with_db;
use agdb::{DbImpl, StorageData};
use serde::{Deserialize, Serialize};
use simcore::{Fnv, Rng};

pub const DB: &str = "/sim/db";

#[derive(Clone, Debug, Serialize, Deserialize, PartialEq)]
pub enum Step {
    Op(Op),
    /// clean restart (only durable state survives), possibly with another file-backed variant
    Reopen { variant: Variant },
    Optimize,
    Shrink,
}

#[derive(Clone, Debug, Serialize, Deserialize)]
pub struct Plan {
    pub focus: String,
    pub variant: Variant,
    pub profile: Profile,
    pub noise: [u64; 3],
    pub buggify_read: u64,
    /// compare the full dump every n-th step (1 = every step)
    pub dump_every: u64,
    pub steps: Vec<Step>,
}

const FILE_VARIANTS: [Variant; 4] = [Variant::File, Variant::Mapped, Variant::AnyFile, Variant::AnyMapped];
const ALL_VARIANTS: [Variant; 6] = [Variant::Memory, Variant::File, Variant::Mapped, Variant::AnyMemory, Variant::AnyFile, Variant::AnyMapped];

pub fn generate(focus: &str, seed: u64, run: u64, _tier: Tier) -> Plan {
    let stream = focus.bytes().fold(0u64, |a, b| a * 31 + b as u64);
    let mut rng = Rng::derive(seed, run, stream);
    let profile = match focus {
        "C12" => *rng.pick(&[Profile::Values, Profile::Values, Profile::Small]),
        "C10" | "C11" => *rng.pick(&[Profile::Small, Profile::Small, Profile::Small, Profile::Churn, Profile::Wide]),
        "C18" => *rng.pick(&[Profile::Small, Profile::Small, Profile::Wide]),
        _ => *rng.pick(&[Profile::Small, Profile::Small, Profile::Small, Profile::Small, Profile::Values, Profile::Churn, Profile::Wide]),
    };
    let mut cfg = default_cfg(&mut rng, profile);
    // per-property emphasis
    let boost: &[usize] = match focus {
        "C08" => &[0, 2, 10, 11],
        "C09" => &[4, 5, 12, 13, 1, 3],
        "C10" => &[6, 7, 0, 10],
        "C11" => &[8, 9, 4, 12, 10, 14],
        "C12" => &[4, 0, 2],
        "C18" => &[0, 2, 10, 11],
        _ => &[],
    };
    for b in boost {
        cfg.w[*b] = cfg.w[*b] * 2 + 4;
    }
    if focus == "C12" {
        cfg.exotic_values = true;
    }
    let with_restarts = rng.chance(1, 2);
    let variant = if with_restarts { *rng.pick(&FILE_VARIANTS) } else { *rng.pick(&ALL_VARIANTS) };
    let ops = crate::dbprog::generate(&mut rng, cfg);
    let mut steps = vec![];
    let mut cur = variant;
    for op in ops {
        steps.push(Step::Op(op));
        if with_restarts && rng.chance(1, if profile == Profile::Small { 4 } else { 25 }) {
            match rng.below(6) {
                0 => steps.push(Step::Optimize),
                1 => steps.push(Step::Shrink),
                2 | 3 => steps.push(Step::Reopen { variant: cur }),
                _ => {
                    cur = *rng.pick(&FILE_VARIANTS);
                    steps.push(Step::Reopen { variant: cur });
                }
            }
        }
    }
    if with_restarts {
        steps.push(Step::Reopen { variant: cur });
    }
    let noise_on = variant.file_backed() && rng.chance(1, 4);
    Plan {
        focus: focus.to_string(),
        variant,
        profile,
        noise: if noise_on { [rng.range(2, 9), rng.range(0, 1) * rng.range(5, 17), rng.range(2, 7)] } else { [0, 0, 0] },
        buggify_read: if rng.chance(1, 3) { rng.range(1, 5) } else { 0 },
        dump_every: match profile {
            Profile::Small | Profile::Values => 1,
            _ => rng.range(10, 40),
        },
        steps,
    }
}

/// Tags a check reports.
pub fn accepts(focus: &str, tag: &str) -> bool {
    match focus {
        "C09" => tag == "C09" || tag == "C12",
        f => f == tag,
    }
}

/// Extra read probes that the dump does not cover (C09 selection by keys, missing key; C18 slices).
fn probes<S: StorageData>(db: &DbImpl<S>, m: &Model, rng_state: u64) -> Vec<(&'static str, String)> {
    use agdb::*;
    let mut out = vec![];
    let ids: Vec<i64> = m.nodes.iter().copied().chain(m.edges.keys().copied()).collect();
    if ids.is_empty() {
        return out;
    }
    let id = ids[(rng_state % ids.len() as u64) as usize];
    let kvs = m.props.get(&id).cloned().unwrap_or_default();
    // selection by keys returns the requested order
    if kvs.len() >= 2 {
        let mut want: Vec<Kv> = kvs.clone();
        want.reverse();
        want.truncate(3);
        let keys: Vec<DbValue> = want.iter().map(|(k, _)| to_db(k)).collect();
        match db.exec(SelectValuesQuery { keys, ids: QueryIds::Ids(vec![QueryId::Id(DbId(id))]) }) {
            Ok(r) => {
                let got: Vec<Kv> = r.elements.first().map(|e| e.values.iter().map(|kv| (from_db(&kv.key), from_db(&kv.value))).collect()).unwrap_or_default();
                if got != want {
                    out.push(("C09", format!("select values of {id} by keys (requested order): got {got:?}, expected {want:?}")));
                }
            }
            Err(e) => out.push(("C09", format!("select values of {id} by existing keys failed: {}", e.description))),
        }
    }
    // a missing key of an explicitly named element is an error
    let missing = Val::Str("no-such-key-\u{1F980}".into());
    if db.exec(SelectValuesQuery { keys: vec![to_db(&missing)], ids: QueryIds::Ids(vec![QueryId::Id(DbId(id))]) }).is_ok() {
        out.push(("C09", format!("select of a missing key of element {id} succeeded")));
    }
    // removed / never existing ids are errors
    let ghost = ids.iter().map(|i| i.abs()).max().unwrap_or(0) + 7;
    if db.exec(SelectValuesQuery { keys: vec![], ids: QueryIds::Ids(vec![QueryId::Id(DbId(ghost))]) }).is_ok() {
        out.push(("C08", format!("select values of never-existing id {ghost} succeeded")));
    }
    // elements search slices
    let mut all: Vec<i64> = ids.clone();
    all.sort_by_key(|i| i.abs());
    let n = all.len() as u64;
    let offset = rng_state % (n + 2);
    let limit = (rng_state / 7) % (n + 2);
    match db.exec(elements_search(Kind::All, limit, offset)) {
        Ok(r) => {
            let got: Vec<i64> = r.elements.iter().map(|e| e.id.0).collect();
            let want: Vec<i64> = all.iter().copied().skip(offset as usize).take(if limit == 0 { usize::MAX } else { limit as usize }).collect();
            if got != want {
                out.push(("C18", format!("elements search limit {limit} offset {offset}: got {got:?}, expected {want:?}")));
            }
        }
        Err(e) => out.push(("C18", format!("elements search limit {limit} offset {offset} failed: {}", e.description))),
    }
    for (kind, name) in [(Kind::Nodes, "node"), (Kind::Edges, "edge")] {
        match db.exec(elements_search(kind, 0, 0)) {
            Ok(r) => {
                let got: Vec<i64> = r.elements.iter().map(|e| e.id.0).collect();
                let want: Vec<i64> = all.iter().copied().filter(|i| (*i > 0) == (kind == Kind::Nodes)).collect();
                if got != want {
                    out.push(("C18", format!("elements search with {name} condition: got {got:?}, expected {want:?}")));
                }
            }
            Err(e) => out.push(("C18", format!("elements search with {name} condition failed: {}", e.description))),
        }
    }
    // conditions on properties, plain and with the modifiers that only steer graph traversals: in an
    // elements search nothing can be "beyond" anything, every element is still examined
    let mut str_keys: Vec<String> = m.props.values().flat_map(|kvs| kvs.iter()).filter_map(|(k, _)| if let Val::Str(s) = k { Some(s.clone()) } else { None }).collect();
    str_keys.sort();
    str_keys.dedup();
    if !str_keys.is_empty() {
        let k = str_keys[((rng_state / 13) % str_keys.len() as u64) as usize].clone();
        let has = |id: &i64| m.props.get(id).map(|kvs| kvs.iter().any(|(kk, _)| *kk == Val::Str(k.clone()))).unwrap_or(false);
        let with_key: Vec<i64> = all.iter().copied().filter(|i| has(i)).collect();
        let without_key: Vec<i64> = all.iter().copied().filter(|i| !has(i)).collect();
        let nodes_only: Vec<i64> = all.iter().copied().filter(|i| *i > 0).collect();
        let b = || QueryBuilder::search().elements().where_();
        let cases: Vec<(&str, SearchQuery, &Vec<i64>)> = vec![
            ("keys", b().keys(k.as_str()).query(), &with_key),
            ("not keys", b().not().keys(k.as_str()).query(), &without_key),
            ("not_beyond keys", b().not_beyond().keys(k.as_str()).query(), &all),
            ("beyond keys", b().beyond().keys(k.as_str()).query(), &all),
            ("node and not_beyond keys", b().node().and().not_beyond().keys(k.as_str()).query(), &nodes_only),
        ];
        for (name, q, want) in cases {
            match db.exec(q) {
                Ok(r) => {
                    let got: Vec<i64> = r.elements.iter().map(|e| e.id.0).collect();
                    if got != *want {
                        out.push(("C18", format!("elements search where {name} {k:?}: got {got:?}, expected {want:?}")));
                    }
                }
                Err(e) => out.push(("C18", format!("elements search where {name} {k:?} failed: {}", e.description))),
            }
        }
    }
    out
}

pub fn exec(plan: &Plan, _trials: &mut Trials) -> RunReport {
    let mut rep = RunReport::default();
    let mut ph = Fnv::new();
    ph.str(&serde_json::to_string(plan).unwrap());
    rep.prog_hash = ph.get();
    let focus = plan.focus.as_str();
    let fs = SimFs::new();
    fs.noise(plan.noise[0], plan.noise[1], plan.noise[2]);
    fs.install();
    if plan.buggify_read != 0 {
        let n = plan.buggify_read;
        let mut c = 0u64;
        agdb::verif::set_buggify(Some(Box::new(move |site| {
            if site == "file_storage.read.contended" {
                c += 1;
                c % n == 0
            } else {
                false
            }
        })));
    }
    let mut evals = 0u64;
    let mut removed_ids: std::collections::BTreeSet<i64> = Default::default();
    let mut reuse = 0u64;
    let mut removals = 0u64;
    let mut restarts = 0u64;
    let mut failed_steps = 0u64;
    let mut lh = Fnv::new();
    let _ = _trials.begin();
    let out = catch(|| -> Vec<(&'static str, String)> {
        let name = if plan.variant.file_backed() { DB } else { "/sim/memdb" };
        let mut db = match AnyDb::open(plan.variant, name) {
            Ok(d) => d,
            Err(e) => return vec![("HARNESS", format!("create failed: {}", e.description))],
        };
        let mut sh = Shadow::default();
        for (n, step) in plan.steps.iter().enumerate() {
            let what;
            match step {
                Step::Op(op) => {
                    what = format!("step {n} {}", op.name());
                    let before: std::collections::BTreeSet<i64> = sh.model.nodes.iter().copied().chain(sh.model.edges.keys().copied()).collect();
                    let o = with_db!(&mut db, d => step_db(d, &mut sh, op));
                    lh.u64(o.ok as u64);
                    if !o.ok {
                        failed_steps += 1;
                    }
                    let after: std::collections::BTreeSet<i64> = sh.model.nodes.iter().copied().chain(sh.model.edges.keys().copied()).collect();
                    for gone in before.difference(&after) {
                        removed_ids.insert(*gone);
                        removals += 1;
                    }
                    for new in after.difference(&before) {
                        if removed_ids.contains(new) || removed_ids.contains(&-new) {
                            reuse += 1;
                        }
                    }
                    let mm: Vec<_> = o.mismatches.into_iter().map(|(t, m)| (t, format!("{what}: {m}"))).collect();
                    if !mm.is_empty() {
                        return mm;
                    }
                    if !o.ok {
                        // a failed / aborted step may legitimately permute property order (C13): compare
                        // order-insensitively (differences belong to C13) and adopt the database's order
                        let d = match with_db!(&db, d => dump(d)) {
                            Ok(d) => d,
                            Err(e) => return vec![("C13", format!("after failed {what}: read failed: {e}"))],
                        };
                        let (dn, mn) = (d.normalised(), sh.model.dump().normalised());
                        if dn != mn {
                            // a failed step left an effect: report it under the property the difference belongs to
                            // (C08-C11 each state "fails without effect" for their own operations; C13 has its own check)
                            return mn.diff(&dn, "model (state before the failed step)", "database").into_iter().map(|(t, m)| (t, format!("after failed {what}: {m}"))).collect();
                        }
                        for (id, kvs) in &d.values {
                            sh.model.props.insert(*id, kvs.clone());
                        }
                        sh.model.props.retain(|_, v| !v.is_empty());
                    }
                }
                Step::Reopen { variant } => {
                    what = format!("step {n} reopen as {variant:?}");
                    if !plan.variant.file_backed() {
                        continue;
                    }
                    drop(db);
                    restarts += 1;
                    db = match AnyDb::open(*variant, DB) {
                        Ok(d) => d,
                        Err(e) => return vec![("C05", format!("{what}: reopen failed: {}", e.description))],
                    };
                }
                Step::Optimize => {
                    what = format!("step {n} optimize_storage");
                    if let Err(e) = with_db!(&mut db, d => d.optimize_storage()) {
                        return vec![("C05", format!("{what} failed: {}", e.description))];
                    }
                }
                Step::Shrink => {
                    what = format!("step {n} shrink_to_fit");
                    if let Err(e) = with_db!(&mut db, d => d.shrink_to_fit()) {
                        return vec![("C05", format!("{what} failed: {}", e.description))];
                    }
                }
            }
            let last = n + 1 == plan.steps.len();
            if !(last || (n as u64 + 1) % plan.dump_every == 0 || !matches!(step, Step::Op(_))) {
                continue;
            }
            evals += 1;
            let d = match with_db!(&db, d => dump(d)) {
                Ok(d) => d,
                Err(e) => return vec![("C08", format!("after {what}: read failed: {e}")), ("C09", format!("after {what}: read failed: {e}")), ("C10", format!("after {what}: read failed: {e}")), ("C11", format!("after {what}: read failed: {e}")), ("C12", format!("after {what}: read failed: {e}")), ("C18", format!("after {what}: read failed: {e}"))],
            };
            let mut mm = sh.model.dump().diff(&d, "model", "database");
            mm.extend(with_db!(&db, d => probes(d, &sh.model, (n as u64 + 1) * 2654435761)));
            if !mm.is_empty() {
                return mm.into_iter().map(|(t, m)| (t, format!("after {what}: {m}"))).collect();
            }
        }
        vec![]
    });
    agdb::verif::set_buggify(None);
    SimFs::uninstall();
    rep.evals = evals;
    rep.log_hash = fs.hash() ^ lh.get();
    let c = fs.counters();
    rep.count("fs.reads", c.reads);
    rep.count("fs.writes", c.writes);
    rep.count("fault.short_write", c.faults_short_write);
    rep.count("fault.eintr", c.faults_eintr);
    rep.count("fault.short_read", c.faults_short_read);
    rep.count("fault.clean_restart", restarts);
    rep.count("steps.failed_or_aborted", failed_steps);
    rep.count("id_reuse", reuse);
    rep.count("removals", removals);
    rep.count(if restarts > 0 { "config.with_restarts" } else { "config.fault_free" }, 1);
    rep.probes();
    rep.count("fault.contended_read_buggify", rep.counters.get("probe.file_storage.read.fresh_handle").copied().unwrap_or(0));
    let rehash = rep.counters.get("probe.multi_map.grow").copied().unwrap_or(0) + rep.counters.get("probe.multi_map.shrink").copied().unwrap_or(0);
    if removals > 0 && (reuse > 0 || rehash > 0) {
        rep.nontrivial = 1;
    }
    match out {
        Caught::Ok(mm) => {
            for (tag, msg) in mm {
                if tag == "HARNESS" {
                    rep.viols.push(Viol { property: "HARNESS".into(), class: "setup".into(), detail: msg, trial: 0 });
                } else if accepts(focus, tag) {
                    let class = classify(&msg);
                    rep.viols.push(Viol { property: focus.to_string(), class, detail: msg, trial: 0 });
                    break;
                }
            }
        }
        Caught::Panic(p) => rep.viols.push(Viol { property: focus.to_string(), class: panic_class(&p), detail: p, trial: 0 }),
        Caught::Budget => {}
    }
    rep
}

fn step_db<S: StorageData>(d: &mut DbImpl<S>, sh: &mut Shadow, op: &Op) -> StepOut {
    step(d, sh, op)
}

/// Violation class = the kind of discrepancy (message up to the first colon after the step prefix), digits collapsed.
fn classify(msg: &str) -> String {
    let body = msg.splitn(2, ": ").nth(1).unwrap_or(msg);
    let head = body.split(':').next().unwrap_or(body);
    let head: String = head.chars().filter(|c| !c.is_ascii_digit() && *c != '-').collect();
    head.split_whitespace().take(8).collect::<Vec<_>>().join("-")
}
