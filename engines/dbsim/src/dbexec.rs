//! Executes database histories against the real agdb through its public API,
//! in lock-step with the reference model, and dumps the observable state through read queries.

use crate::dbmodel::*;
use crate::dbprog::*;
use crate::dbprog::{Kind, Kv, Op, Ref, Search, Val, Values};
use agdb::*;
use std::collections::{BTreeMap, BTreeSet};

pub fn to_db(v: &Val) -> DbValue {
    match v {
        Val::Bytes(b) => DbValue::Bytes(b.clone()),
        Val::I64(i) => DbValue::I64(*i),
        Val::U64(u) => DbValue::U64(*u),
        Val::F64(b) => DbValue::F64(DbF64::from(f64::from_bits(*b))),
        Val::Str(s) => DbValue::String(s.clone()),
        Val::VI64(v) => DbValue::VecI64(v.clone()),
        Val::VU64(v) => DbValue::VecU64(v.clone()),
        Val::VF64(v) => DbValue::VecF64(v.iter().map(|b| DbF64::from(f64::from_bits(*b))).collect()),
        Val::VStr(v) => DbValue::VecString(v.clone()),
    }
}

pub fn from_db(v: &DbValue) -> Val {
    match v {
        DbValue::Bytes(b) => Val::Bytes(b.clone()),
        DbValue::I64(i) => Val::I64(*i),
        DbValue::U64(u) => Val::U64(*u),
        DbValue::F64(f) => Val::F64(f.to_f64().to_bits()),
        DbValue::String(s) => Val::Str(s.clone()),
        DbValue::VecI64(v) => Val::VI64(v.clone()),
        DbValue::VecU64(v) => Val::VU64(v.clone()),
        DbValue::VecF64(v) => Val::VF64(v.iter().map(|f| f.to_f64().to_bits()).collect()),
        DbValue::VecString(v) => Val::VStr(v.clone()),
    }
}

fn kvs(v: &[Kv]) -> Vec<DbKeyValue> {
    v.iter().map(|(k, x)| DbKeyValue { key: to_db(k), value: to_db(x) }).collect()
}

fn qvalues(v: &Values) -> QueryValues {
    match v {
        Values::Single(s) => QueryValues::Single(kvs(s)),
        Values::Multi(m) => QueryValues::Multi(m.iter().map(|x| kvs(x)).collect()),
    }
}

/// Resolves a reference against the slot table.
pub fn rid(elems: &[i64], r: &Ref) -> RId {
    match r {
        Ref::Slot(k) => {
            if elems.is_empty() {
                RId::Id(987_654)
            } else {
                RId::Id(elems[*k as usize % elems.len()])
            }
        }
        Ref::Raw(i) => RId::Id(*i),
        Ref::Alias(a) => RId::Alias(a.clone()),
    }
}

fn qid(elems: &[i64], r: &Ref) -> QueryId {
    match rid(elems, r) {
        RId::Id(i) => QueryId::Id(DbId(i)),
        RId::Alias(a) => QueryId::Alias(a),
    }
}

fn qids(elems: &[i64], r: &[Ref]) -> QueryIds {
    QueryIds::Ids(r.iter().map(|x| qid(elems, x)).collect())
}

pub fn elements_search(kind: Kind, limit: u64, offset: u64) -> SearchQuery {
    let conditions = match kind {
        Kind::All => vec![],
        Kind::Nodes => vec![QueryCondition { logic: QueryConditionLogic::And, modifier: QueryConditionModifier::None, data: QueryConditionData::Node }],
        Kind::Edges => vec![QueryCondition { logic: QueryConditionLogic::And, modifier: QueryConditionModifier::None, data: QueryConditionData::Edge }],
    };
    SearchQuery { algorithm: SearchQueryAlgorithm::Elements, origin: QueryId::Id(DbId(0)), destination: QueryId::Id(DbId(0)), limit, offset, order_by: vec![], conditions }
}

pub fn index_search(key: &Val, value: &Val) -> SearchQuery {
    SearchQuery {
        algorithm: SearchQueryAlgorithm::Index,
        origin: QueryId::Id(DbId(0)),
        destination: QueryId::Id(DbId(0)),
        limit: 0,
        offset: 0,
        order_by: vec![],
        conditions: vec![QueryCondition {
            logic: QueryConditionLogic::And,
            modifier: QueryConditionModifier::None,
            data: QueryConditionData::KeyValue(KeyValueComparison { key: to_db(key), value: Comparison::Equal(to_db(value)) }),
        }],
    }
}

pub fn walk(algorithm: SearchQueryAlgorithm, origin: QueryId, destination: QueryId) -> SearchQuery {
    SearchQuery { algorithm, origin, destination, limit: 0, offset: 0, order_by: vec![], conditions: vec![] }
}

fn search_query(elems: &[i64], s: &Search) -> SearchQuery {
    match s {
        Search::Elements { kind, limit, offset } => elements_search(*kind, *limit, *offset),
        Search::From(r) => walk(SearchQueryAlgorithm::BreadthFirst, qid(elems, r), QueryId::Id(DbId(0))),
        Search::To(r) => walk(SearchQueryAlgorithm::BreadthFirst, QueryId::Id(DbId(0)), qid(elems, r)),
        Search::Index { key, value } => index_search(key, value),
    }
}

fn op_search(op: &Op) -> Option<&Search> {
    match op {
        Op::InsertValuesSearch { search, .. } | Op::RemoveSearch { search } | Op::RemoveValuesSearch { search, .. } => Some(search),
        _ => None,
    }
}

/// Whether the statement demands that the search sub-query fails.
fn search_must_fail(m: &Model, elems: &[i64], s: &Search) -> bool {
    match s {
        Search::Elements { .. } => false,
        Search::From(r) | Search::To(r) => m.resolve(&rid(elems, r)).is_none(),
        Search::Index { key, .. } => !m.indexes.contains(key),
    }
}

pub enum Built {
    InsertNodes(InsertNodesQuery),
    InsertEdges(InsertEdgesQuery),
    InsertValues(InsertValuesQuery),
    InsertAliases(InsertAliasesQuery),
    RemoveAliases(RemoveAliasesQuery),
    InsertIndex(InsertIndexQuery),
    RemoveIndex(RemoveIndexQuery),
    Remove(RemoveQuery),
    RemoveValues(RemoveValuesQuery),
}

pub fn build(elems: &[i64], op: &Op) -> Built {
    let none = || QueryIds::Ids(vec![]);
    match op {
        Op::InsertNodes { count, aliases, values } => Built::InsertNodes(InsertNodesQuery { count: *count, values: qvalues(values), aliases: aliases.clone(), ids: none() }),
        Op::InsertNodesIds { ids, aliases, values } => Built::InsertNodes(InsertNodesQuery { count: 0, values: qvalues(values), aliases: aliases.clone(), ids: qids(elems, ids) }),
        Op::InsertEdges { from, to, each, values } => Built::InsertEdges(InsertEdgesQuery { from: qids(elems, from), to: qids(elems, to), ids: none(), values: qvalues(values), each: *each }),
        Op::InsertEdgesIds { ids, values } => Built::InsertEdges(InsertEdgesQuery { from: none(), to: none(), ids: qids(elems, ids), values: qvalues(values), each: false }),
        Op::InsertValues { ids, values } => Built::InsertValues(InsertValuesQuery { ids: qids(elems, ids), values: qvalues(values) }),
        Op::InsertValuesSearch { search, values } => Built::InsertValues(InsertValuesQuery { ids: QueryIds::Search(search_query(elems, search)), values: QueryValues::Single(kvs(values)) }),
        Op::InsertAliases { ids, aliases } => Built::InsertAliases(InsertAliasesQuery { ids: qids(elems, ids), aliases: aliases.clone() }),
        Op::RemoveAliases { aliases } => Built::RemoveAliases(RemoveAliasesQuery(aliases.clone())),
        Op::InsertIndex { key } => Built::InsertIndex(InsertIndexQuery(to_db(key))),
        Op::RemoveIndex { key } => Built::RemoveIndex(RemoveIndexQuery(to_db(key))),
        Op::Remove { ids } => Built::Remove(RemoveQuery(qids(elems, ids))),
        Op::RemoveSearch { search } => Built::Remove(RemoveQuery(QueryIds::Search(search_query(elems, search)))),
        Op::RemoveValues { ids, keys } => Built::RemoveValues(RemoveValuesQuery(SelectValuesQuery { keys: keys.iter().map(to_db).collect(), ids: qids(elems, ids) })),
        Op::RemoveValuesSearch { search, keys } => Built::RemoveValues(RemoveValuesQuery(SelectValuesQuery { keys: keys.iter().map(to_db).collect(), ids: QueryIds::Search(search_query(elems, search)) })),
        Op::Txn { .. } => unreachable!(),
    }
}

thread_local! {
    /// When set, every mutating query `step` executes is recorded with its result (srvsim replays the
    /// concrete queries against the server and compares).
    pub static RECORD: std::cell::RefCell<Option<Vec<(QueryType, Result<QueryResult, String>)>>> = const { std::cell::RefCell::new(None) };
}

impl Built {
    pub fn query_type(&self) -> QueryType {
        match self {
            Built::InsertNodes(q) => QueryType::InsertNodes(q.clone()),
            Built::InsertEdges(q) => QueryType::InsertEdges(q.clone()),
            Built::InsertValues(q) => QueryType::InsertValues(q.clone()),
            Built::InsertAliases(q) => QueryType::InsertAlias(q.clone()),
            Built::RemoveAliases(q) => QueryType::RemoveAliases(q.clone()),
            Built::InsertIndex(q) => QueryType::InsertIndex(q.clone()),
            Built::RemoveIndex(q) => QueryType::RemoveIndex(q.clone()),
            Built::Remove(q) => QueryType::Remove(q.clone()),
            Built::RemoveValues(q) => QueryType::RemoveValues(q.clone()),
        }
    }
}

fn exec_built<S: StorageData>(t: &mut TransactionMut<'_, S>, b: &Built) -> Result<QueryResult, DbError> {
    let r = exec_built_inner(t, b);
    RECORD.with(|rec| {
        if let Some(v) = rec.borrow_mut().as_mut() {
            v.push((b.query_type(), r.as_ref().map(|x| x.clone()).map_err(|e| e.description.clone())));
        }
    });
    r
}

fn exec_built_inner<S: StorageData>(t: &mut TransactionMut<'_, S>, b: &Built) -> Result<QueryResult, DbError> {
    match b {
        Built::InsertNodes(q) => t.exec_mut(q),
        Built::InsertEdges(q) => t.exec_mut(q),
        Built::InsertValues(q) => t.exec_mut(q),
        Built::InsertAliases(q) => t.exec_mut(q),
        Built::RemoveAliases(q) => t.exec_mut(q),
        Built::InsertIndex(q) => t.exec_mut(q),
        Built::RemoveIndex(q) => t.exec_mut(q),
        Built::Remove(q) => t.exec_mut(q),
        Built::RemoveValues(q) => t.exec_mut(q),
    }
}

/// Model + slot table, advanced in step with the database.
#[derive(Clone, Default)]
pub struct Shadow {
    pub model: Model,
    pub elems: Vec<i64>,
}

#[derive(Default)]
pub struct StepOut {
    /// (property tag, message)
    pub mismatches: Vec<(&'static str, String)>,
    /// the database reported success for the whole step
    pub ok: bool,
    pub err: Option<String>,
    /// a query failed although the closure wanted to continue (logical failure inside a transaction)
    pub query_failed_at: Option<usize>,
}

const INJECTED: &str = "verif: transaction closure aborts";

/// Executes one history step (a single query or an explicit transaction) on `db`, advancing `sh`
/// only if the database committed. Never panics on its own; panics of agdb propagate to the caller.
pub fn step<S: StorageData>(db: &mut DbImpl<S>, sh: &mut Shadow, op: &Op) -> StepOut {
    let (ops, fail_after): (Vec<&Op>, Option<u64>) = match op {
        Op::Txn { ops, fail_after } => (ops.iter().collect(), *fail_after),
        single => (vec![single], None),
    };
    let mut scratch = sh.clone();
    let mut out = StepOut::default();
    let mut failed_at = None;
    let r: Result<(), DbError> = db.transaction_mut(|t| {
        for (i, op) in ops.iter().enumerate() {
            if fail_after == Some(i as u64) {
                return Err(DbError::query(DbErrorType::NotAllowed, INJECTED));
            }
            // search sub-query first: its result is what the model applies the operation to
            let mut targets = vec![];
            let mut search_failed = false;
            if let Some(s) = op_search(op) {
                let must_fail = search_must_fail(&scratch.model, &scratch.elems, s);
                match t.exec(search_query(&scratch.elems, s)) {
                    Ok(r) => {
                        if must_fail {
                            out.mismatches.push((Model::default_tag(op), format!("{}: search sub-query succeeded although its origin/index does not exist", op.name())));
                        }
                        targets = r.elements.iter().map(|e| e.id.0).collect();
                    }
                    Err(e) => {
                        if !must_fail {
                            out.mismatches.push((Model::default_tag(op), format!("{}: search sub-query failed: {}", op.name(), e.description)));
                        }
                        search_failed = true;
                    }
                }
            }
            let built = build(&scratch.elems, op);
            let res = exec_built(t, &built);
            let ids: Vec<i64> = res.as_ref().map(|r| r.elements.iter().map(|e| e.id.0).collect()).unwrap_or_default();
            let mut m2 = scratch.model.clone();
            let mut new_ids = NewIds::new(&ids);
            let elems = scratch.elems.clone();
            let rr = |r: &Ref| rid(&elems, r);
            let pred = if search_failed { Err(ModelErr { tag: Model::default_tag(op), why: "search sub-query fails".into() }) } else { m2.apply(op, &rr, &targets, &mut new_ids) };
            match (&res, pred) {
                (Ok(r), Ok(expected)) => {
                    let is_insert = matches!(op, Op::InsertNodes { .. } | Op::InsertNodesIds { .. } | Op::InsertEdges { .. } | Op::InsertEdgesIds { .. });
                    if is_insert && ids != expected {
                        out.mismatches.push(("C08", format!("{}: reported ids {ids:?}, expected {expected:?}", op.name())));
                    }
                    if matches!(op, Op::InsertValues { .. }) && ids != expected {
                        out.mismatches.push(("C09", format!("{}: reported new ids {ids:?}, expected {expected:?}", op.name())));
                    }
                    for e in &r.elements {
                        if e.id.0 < 0 {
                            let want = m2.edges.get(&e.id.0).copied();
                            if want != Some((e.from.0, e.to.0)) {
                                out.mismatches.push(("C08", format!("{}: edge {} reported endpoints ({}, {}), expected {want:?}", op.name(), e.id.0, e.from.0, e.to.0)));
                            }
                        }
                    }
                    scratch.elems.extend(new_ids.used.iter().copied());
                    scratch.model = m2;
                }
                (Ok(_), Err(e)) => {
                    out.mismatches.push((e.tag, format!("{} succeeded although {}", op.name(), e.why)));
                    scratch.model = m2; // diverged; the caller stops the run at the first mismatch
                }
                (Err(err), Ok(_)) => {
                    out.mismatches.push((Model::default_tag(op), format!("valid {} failed: {}", op.name(), err.description)));
                }
                (Err(_), Err(_)) => {}
            }
            if let Err(e) = res {
                failed_at = Some(i);
                return Err(e);
            }
        }
        if fail_after.map(|f| f as usize >= ops.len()).unwrap_or(false) {
            return Err(DbError::query(DbErrorType::NotAllowed, INJECTED));
        }
        Ok(())
    });
    out.query_failed_at = failed_at;
    match r {
        Ok(()) => {
            out.ok = true;
            *sh = scratch;
        }
        Err(e) => {
            out.err = Some(e.description);
        }
    }
    out
}

// ---------------------------------------------------------------- dump through public read queries

fn ids_of(id: i64) -> QueryIds {
    QueryIds::Ids(vec![QueryId::Id(DbId(id))])
}

pub fn dump<S: StorageData>(db: &DbImpl<S>) -> Result<Dump, String> {
    let e = |what: &str, e: DbError| format!("{what}: {}", e.description);
    let mut d = Dump { node_count: db.exec(SelectNodeCountQuery {}).map_err(|x| e("select node_count", x))?.result, ..Default::default() };
    let all = db.exec(elements_search(Kind::All, 0, 0)).map_err(|x| e("search elements", x))?;
    for el in &all.elements {
        let id = el.id.0;
        d.elements.push(id);
        if id < 0 {
            d.edges.insert(id, (el.from.0, el.to.0));
        }
    }
    let ids: BTreeSet<i64> = d.elements.iter().copied().collect();
    for id in ids {
        let r = db.exec(SelectValuesQuery { keys: vec![], ids: ids_of(id) }).map_err(|x| e(&format!("select values of {id}"), x))?;
        let vals: Vec<Kv> = r.elements.first().map(|el| el.values.iter().map(|kv| (from_db(&kv.key), from_db(&kv.value))).collect()).unwrap_or_default();
        if id < 0
            && let Some(el) = r.elements.first()
            && d.edges.get(&id) != Some(&(el.from.0, el.to.0))
        {
            return Err(format!("edge {id}: endpoints reported by select ({}, {}) differ from search ({:?})", el.from.0, el.to.0, d.edges.get(&id)));
        }
        d.values.insert(id, vals);
        let r = db.exec(SelectKeysQuery(ids_of(id))).map_err(|x| e(&format!("select keys of {id}"), x))?;
        d.keys.insert(id, r.elements.first().map(|el| el.values.iter().map(|kv| from_db(&kv.key)).collect()).unwrap_or_default());
        let r = db.exec(SelectKeyCountQuery(ids_of(id))).map_err(|x| e(&format!("select key count of {id}"), x))?;
        d.key_count.insert(id, r.result);
        if id > 0 {
            if let Ok(r) = db.exec(SelectAliasesQuery(ids_of(id)))
                && let Some(el) = r.elements.first()
                && let Some(kv) = el.values.first()
                && let DbValue::String(a) = &kv.value
            {
                d.alias.insert(id, a.clone());
            }
            let mut c = [0u64; 3];
            for (i, (from, to)) in [(true, true), (true, false), (false, true)].iter().enumerate() {
                c[i] = db.exec(SelectEdgeCountQuery { ids: ids_of(id), from: *from, to: *to }).map_err(|x| e(&format!("select edge count of {id}"), x))?.result;
            }
            d.edge_counts.insert(id, (c[0], c[1], c[2]));
        }
    }
    let r = db.exec(SelectAllAliasesQuery {}).map_err(|x| e("select all aliases", x))?;
    for el in &r.elements {
        if let Some(kv) = el.values.first()
            && let DbValue::String(a) = &kv.value
        {
            d.all_aliases.push((a.clone(), el.id.0));
            // resolving the alias must give the same node
            let rr = db.exec(SelectKeysQuery(QueryIds::Ids(vec![QueryId::Alias(a.clone())]))).map_err(|x| e(&format!("resolve alias {a:?}"), x))?;
            if rr.elements.first().map(|x| x.id.0) != Some(el.id.0) {
                return Err(format!("alias {a:?} listed for {} but resolves to {:?}", el.id.0, rr.elements.first().map(|x| x.id.0)));
            }
        }
    }
    d.all_aliases.sort();
    let r = db.exec(SelectIndexesQuery {}).map_err(|x| e("select indexes", x))?;
    if let Some(el) = r.elements.first() {
        for kv in &el.values {
            let count = match &kv.value {
                DbValue::U64(c) => *c,
                DbValue::I64(c) => *c as u64,
                _ => 0,
            };
            d.indexes.insert(from_db(&kv.key), count);
        }
    }
    // index contents: probe every value any element currently has under an indexed key, plus every value
    // seen under any key (catches stale entries for values that moved to another key)
    let mut universe: BTreeSet<Val> = BTreeSet::new();
    for kvs in d.values.values() {
        for (_, v) in kvs {
            universe.insert(v.clone());
        }
    }
    universe.insert(Val::I64(-424242));
    let keys: Vec<Val> = d.indexes.keys().cloned().collect();
    for key in keys {
        for v in &universe {
            let r = db.exec(index_search(&key, v)).map_err(|x| e(&format!("index search {key:?}={v:?}"), x))?;
            if !r.elements.is_empty() {
                let set: BTreeSet<i64> = r.elements.iter().map(|el| el.id.0).collect();
                if set.len() != r.elements.len() {
                    return Err(format!("index search {key:?}={v:?} returned duplicates: {:?}", r.elements.iter().map(|el| el.id.0).collect::<Vec<_>>()));
                }
                d.index_hits.insert((key.clone(), v.clone()), set);
            }
        }
    }
    Ok(d)
}

/// Extended dump: the canonical dump plus ordered traversal results from and to every node (C05/C06).
pub fn extended<S: StorageData>(db: &DbImpl<S>) -> Result<(Dump, BTreeMap<String, Vec<i64>>), String> {
    let d = dump(db)?;
    let mut t = BTreeMap::new();
    for id in d.elements.iter().filter(|i| **i > 0) {
        for (name, alg) in [("bfs", SearchQueryAlgorithm::BreadthFirst), ("dfs", SearchQueryAlgorithm::DepthFirst)] {
            let r = db.exec(walk(alg, QueryId::Id(DbId(*id)), QueryId::Id(DbId(0)))).map_err(|x| format!("{name} from {id}: {}", x.description))?;
            t.insert(format!("{name} from {id}"), r.elements.iter().map(|e| e.id.0).collect());
            let r = db.exec(walk(alg, QueryId::Id(DbId(0)), QueryId::Id(DbId(*id)))).map_err(|x| format!("{name} to {id}: {}", x.description))?;
            t.insert(format!("{name} to {id}"), r.elements.iter().map(|e| e.id.0).collect());
        }
    }
    Ok((d, t))
}

// ---------------------------------------------------------------- variants

#[derive(Clone, Copy, Debug, PartialEq, Eq, serde::Serialize, serde::Deserialize)]
pub enum Variant {
    Memory,
    File,
    Mapped,
    AnyMemory,
    AnyFile,
    AnyMapped,
}

impl Variant {
    pub fn file_backed(&self) -> bool {
        !matches!(self, Variant::Memory | Variant::AnyMemory)
    }
}

pub enum AnyDb {
    M(DbMemory),
    F(DbFile),
    P(Db),
    A(DbAny),
}

impl AnyDb {
    pub fn open(v: Variant, name: &str) -> Result<AnyDb, DbError> {
        Ok(match v {
            Variant::Memory => AnyDb::M(DbMemory::new(name)?),
            Variant::File => AnyDb::F(DbFile::new(name)?),
            Variant::Mapped => AnyDb::P(Db::new(name)?),
            Variant::AnyMemory => AnyDb::A(DbAny::new_memory(name)?),
            Variant::AnyFile => AnyDb::A(DbAny::new_file(name)?),
            Variant::AnyMapped => AnyDb::A(DbAny::new_mapped(name)?),
        })
    }
}

#[macro_export]
macro_rules! with_db {
    ($db:expr, $d:ident => $e:expr) => {
        match $db {
            $crate::dbexec::AnyDb::M($d) => $e,
            $crate::dbexec::AnyDb::F($d) => $e,
            $crate::dbexec::AnyDb::P($d) => $e,
            $crate::dbexec::AnyDb::A($d) => $e,
        }
    };
}
