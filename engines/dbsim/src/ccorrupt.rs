//! C07 — opening or reading a damaged database file never crashes the process.
//! Stored-byte corruption as a fault on the simulated disk: valid images (clean close, crash
//! snapshot with a live log) are mutated, then opened and read by the real code in a supervised
//! worker process (panic => caught; abort / over-cap allocation => the worker dies and the
//! supervisor attributes the death to the trial).

use crate::common::*;
use crate::dbexec::*;
use crate::dbmodel::Dump;
use crate::dbprog::*;
use crate::simfs::{self, Image, SimFs};
use dbsim::with_db;
use serde::{Deserialize, Serialize};
use simcore::{Fnv, Rng};

pub const DB: &str = "/sim/db";
pub const WAL: &str = "/sim/.db";

#[derive(Clone, Debug, Serialize, Deserialize, PartialEq)]
pub enum Mut {
    Flip { wal: bool, bits: Vec<(u64, u8)> },
    Truncate { wal: bool, len: u64 },
    Set64 { wal: bool, off: u64, val: u64 },
    Fill { wal: bool, off: u64, len: u64, byte: u8, random: u64 },
    CopyRange { from: u64, to: u64, len: u64 },
    WalReplace { bytes: Vec<u8> },
    WalRemove,
    DataReplace { bytes: Vec<u8> },
    /// append a syntactically valid log record (pos, len, payload)
    WalRecord { pos: u64, len: u64, payload: Vec<u8> },
}

#[derive(Clone, Debug, Serialize, Deserialize)]
pub struct Plan {
    pub history: Vec<Op>,
    /// None = image after a clean close; Some(permille) = crash snapshot at that fraction of the history's FS events
    pub crash_at: Option<u64>,
    pub open_memory_variant: bool,
    /// replay files of recorded known findings execute the trial even where the search would cut it
    #[serde(default)]
    pub no_prescreen: bool,
    pub muts: Vec<Mut>,
}

fn base_image(plan: &Plan) -> Option<Image> {
    let fs = SimFs::new();
    fs.install();
    let r = catch(|| {
        let mut db = AnyDb::open(Variant::File, DB).ok()?;
        fs.record(true);
        let start = fs.image();
        let mut sh = Shadow::default();
        for op in &plan.history {
            let _ = with_db!(&mut db, d => step(d, &mut sh, op));
        }
        match plan.crash_at {
            None => {
                drop(db);
                Some(fs.image())
            }
            Some(pm) => {
                let j = fs.take_journal();
                std::mem::forget(db);
                let k = (j.len() as u64 * pm / 1000) as usize;
                let mut img = start;
                for ev in &j[..k.min(j.len())] {
                    simfs::apply_event(&mut img, ev);
                }
                Some(img)
            }
        }
    });
    SimFs::uninstall();
    match r {
        Caught::Ok(x) => x,
        _ => None,
    }
}

/// Offsets of the 8-byte header fields (index, size) of every record in a well-formed data file.
fn structure(data: &[u8]) -> Vec<u64> {
    let mut offs = vec![];
    let mut pos = 0usize;
    while pos + 16 <= data.len() && offs.len() < 4000 {
        offs.push(pos as u64);
        offs.push(pos as u64 + 8);
        let size = u64::from_le_bytes(data[pos + 8..pos + 16].try_into().unwrap());
        // a few payload offsets too (vector length prefixes, value-index type bytes live there)
        if size >= 8 {
            offs.push(pos as u64 + 16);
        }
        if size >= 24 {
            offs.push(pos as u64 + 24);
            offs.push(pos as u64 + 32);
        }
        let next = pos as u64 + 16 + size;
        if next > data.len() as u64 {
            break;
        }
        pos = next as usize;
    }
    offs
}

pub fn gen_mut(rng: &mut Rng, img: &Image) -> Mut {
    let data = img.get(DB).cloned().unwrap_or_default();
    let wal = img.get(WAL).cloned().unwrap_or_default();
    let on_wal = !wal.is_empty() && rng.chance(1, 4);
    let f = if on_wal { &wal } else { &data };
    let flen = f.len().max(1) as u64;
    let st = if on_wal { (0..(wal.len() as u64 / 8)).map(|i| i * 8).collect::<Vec<_>>() } else { structure(&data) };
    let off = |rng: &mut Rng| -> u64 {
        if !st.is_empty() && rng.chance(3, 5) { *rng.pick(&st) + if rng.chance(1, 6) { rng.below(8) } else { 0 } } else { rng.below(flen) }
    };
    match rng.below(12) {
        0 | 1 | 2 => {
            let n = rng.range(1, 8);
            Mut::Flip { wal: on_wal, bits: (0..n).map(|_| (off(rng), rng.below(8) as u8)).collect() }
        }
        3 => Mut::Truncate { wal: on_wal, len: if rng.chance(1, 2) { off(rng) + rng.below(3) } else { rng.below(flen) } },
        4 | 5 | 6 => {
            let special = [0, 1, 2, 7, 8, 15, 16, 17, 24, flen - 1, flen, flen + 1, flen * 2, 1 << 31, 1 << 32, 1 << 40, 1 << 62, 1 << 63, u64::MAX, u64::MAX - 15, u64::MAX / 2];
            Mut::Set64 { wal: on_wal, off: off(rng), val: if rng.chance(1, 5) { rng.next() } else { *rng.pick(&special) } }
        }
        7 => Mut::Fill { wal: on_wal, off: off(rng), len: rng.range(1, 64), byte: *rng.pick(&[0u8, 0xFF, 1, 0x80]), random: if rng.chance(1, 2) { rng.next() | 1 } else { 0 } },
        8 => {
            let s = structure(&data);
            if s.len() >= 4 { Mut::CopyRange { from: *rng.pick(&s), to: *rng.pick(&s), len: *rng.pick(&[8, 16, 32]) } } else { Mut::Truncate { wal: false, len: rng.below(flen) } }
        }
        9 => match rng.below(4) {
            0 => Mut::WalRemove,
            1 => Mut::WalReplace { bytes: { let n = rng.range(1, 64) as usize; rng.bytes(n) } },
            2 => Mut::WalRecord { pos: *rng.pick(&[0, 8, 16, 24, flen, flen + 100, 1 << 40, u64::MAX]), len: *rng.pick(&[0, 1, 8, 1 << 20, 1 << 33, 1 << 62, u64::MAX]), payload: { let n = rng.below(24) as usize; rng.bytes(n) } },
            _ => Mut::WalRecord { pos: rng.below(flen + 8), len: 8, payload: rng.bytes(8) },
        },
        10 => Mut::DataReplace { bytes: { let n = rng.below(200) as usize; rng.bytes(n) } },
        _ => {
            // record-size / index fields specifically
            let s = structure(&data);
            if s.is_empty() {
                Mut::Truncate { wal: false, len: 0 }
            } else {
                let special = [0, 1, 3, 9, 1 << 20, 1 << 33, (data.len() as u64).saturating_sub(8), data.len() as u64, u64::MAX, 1 << 63, 1 << 56];
                Mut::Set64 { wal: false, off: *rng.pick(&s), val: *rng.pick(&special) }
            }
        }
    }
}

pub fn apply(img: &Image, m: &Mut) -> Image {
    let mut out = img.clone();
    let pick = |wal: bool| if wal { WAL } else { DB };
    match m {
        Mut::Flip { wal, bits } => {
            let f = out.entry(pick(*wal).to_string()).or_default();
            for (off, bit) in bits {
                if let Some(b) = f.get_mut(*off as usize) {
                    *b ^= 1 << (bit % 8);
                }
            }
        }
        Mut::Truncate { wal, len } => {
            let f = out.entry(pick(*wal).to_string()).or_default();
            if (*len as usize) < f.len() {
                f.truncate(*len as usize);
            }
        }
        Mut::Set64 { wal, off, val } => {
            let f = out.entry(pick(*wal).to_string()).or_default();
            let o = *off as usize;
            if o + 8 <= f.len() {
                f[o..o + 8].copy_from_slice(&val.to_le_bytes());
            }
        }
        Mut::Fill { wal, off, len, byte, random } => {
            let f = out.entry(pick(*wal).to_string()).or_default();
            let mut r = Rng::new(*random);
            for i in 0..*len {
                if let Some(b) = f.get_mut((*off + i) as usize) {
                    *b = if *random != 0 { r.next() as u8 } else { *byte };
                }
            }
        }
        Mut::CopyRange { from, to, len } => {
            let f = out.entry(DB.to_string()).or_default();
            let (from, to, len) = (*from as usize, *to as usize, *len as usize);
            if from + len <= f.len() && to + len <= f.len() {
                let tmp = f[from..from + len].to_vec();
                f[to..to + len].copy_from_slice(&tmp);
            }
        }
        Mut::WalReplace { bytes } => {
            out.insert(WAL.to_string(), bytes.clone());
        }
        Mut::WalRemove => {
            out.remove(WAL);
        }
        Mut::DataReplace { bytes } => {
            out.insert(DB.to_string(), bytes.clone());
        }
        Mut::WalRecord { pos, len, payload } => {
            let f = out.entry(WAL.to_string()).or_default();
            f.extend_from_slice(&pos.to_le_bytes());
            f.extend_from_slice(&len.to_le_bytes());
            f.extend_from_slice(payload);
        }
    }
    out
}

pub fn generate(seed: u64, run: u64, tier: Tier) -> Plan {
    let mut rng = Rng::derive(seed, run, 7);
    let profile = match rng.below(6) {
        0 => Profile::Values,
        1 => Profile::Wide,
        _ => Profile::Small,
    };
    let mut cfg = default_cfg(&mut rng, profile);
    cfg.invalid = false;
    cfg.steps = match profile {
        Profile::Wide => rng.range(30, 80),
        _ => rng.range(2, 14),
    };
    let history = crate::dbprog::generate(&mut rng, cfg);
    let mut plan = Plan { history, crash_at: if rng.chance(1, 3) { Some(rng.range(100, 1000)) } else { None }, open_memory_variant: rng.chance(1, 6), no_prescreen: false, muts: vec![] };
    let n = match tier {
        Tier::Quick => 40,
        Tier::Thorough => 300,
    };
    if let Some(img) = base_image(&plan) {
        for _ in 0..n {
            plan.muts.push(gen_mut(&mut rng, &img));
        }
    }
    plan
}

const STEP_BUDGET: u64 = 1_000_000;

/// Known finding (known_findings.jsonl, C07 set-record-*): the loader sizes its record table by the
/// record index read from the file. A trial whose image would drive it past the allocation cap is
/// cut here instead of being executed (it would abort the worker), and counted. The walk mirrors
/// Storage::read_records on the data file as it is after log recovery.
fn known_record_index_trigger(img: &Image) -> bool {
    use agdb::StorageData;
    let fs = SimFs::from_image(img.clone());
    fs.install();
    fs.set_budget(Some(STEP_BUDGET));
    let _ = catch(|| {
        if let Ok(s) = agdb::FileStorage::new(DB) {
            drop(s);
        }
    });
    fs.set_budget(None);
    SimFs::uninstall();
    let recovered = fs.file(DB).unwrap_or_default();
    // the in-memory variant loads the data file as it is (no log recovery)
    walk_triggers(&recovered) || walk_triggers(img.get(DB).map(|v| v.as_slice()).unwrap_or(&[]))
}

fn walk_triggers(data: &[u8]) -> bool {
    let end = data.len() as u64;
    // mirror of Storage::read_records: a file without a version record (legacy) is shifted by 24 bytes
    // and then walked, i.e. its original bytes are walked from offset 0
    let mut version = 0u64;
    if end >= 16 {
        let idx0 = u64::from_le_bytes(data[0..8].try_into().unwrap());
        let size0 = u64::from_le_bytes(data[8..16].try_into().unwrap());
        if idx0 == 0 {
            if size0 < 8 || end < size0.saturating_add(16) || end < 24 {
                return false;
            }
            version = u64::from_le_bytes(data[16..24].try_into().unwrap());
        }
    }
    if version > 1 {
        return false;
    }
    let mut pos = if version == 1 { 24u64 } else { 0u64 };
    while pos < end {
        if pos + 16 > end {
            return false;
        }
        let index = u64::from_le_bytes(data[pos as usize..pos as usize + 8].try_into().unwrap());
        let size = u64::from_le_bytes(data[pos as usize + 8..pos as usize + 16].try_into().unwrap());
        if (end - pos + 16) < size {
            return false;
        }
        if index >= 1_000_000 {
            return true;
        }
        pos = match pos.checked_add(16).and_then(|p| p.checked_add(size)) {
            Some(p) => p,
            None => return false,
        };
    }
    false
}

enum Seen {
    OpenErr,
    Dump(Box<Dump>),
    ReadErr,
    Hang,
}

fn open_read<S: agdb::StorageData>(name: &str) -> Seen {
    // every storage call (also reads served from memory) counts against the step budget
    match agdb::DbImpl::<crate::wrapstore::Counting<S>>::new(name) {
        Err(_) => Seen::OpenErr,
        Ok(db) => match dump(&db) {
            Ok(d) => Seen::Dump(Box::new(d)),
            Err(_) => Seen::ReadErr,
        },
    }
}

fn try_open(img: &Image, v: Variant, name: &str) -> Result<Seen, String> {
    let fs = SimFs::from_image(img.clone());
    fs.install();
    crate::wrapstore::set_budget(Some(STEP_BUDGET));
    let r = catch(|| match v {
        Variant::File | Variant::AnyFile => open_read::<agdb::FileStorage>(name),
        Variant::Memory | Variant::AnyMemory => open_read::<agdb::MemoryStorage>(name),
        _ => open_read::<agdb::FileStorageMemoryMapped>(name),
    });
    crate::wrapstore::set_budget(None);
    SimFs::uninstall();
    match r {
        Caught::Ok(s) => Ok(s),
        Caught::Budget => Ok(Seen::Hang),
        Caught::Panic(p) => Err(p),
    }
}

pub fn exec(plan: &Plan, trials: &mut Trials) -> RunReport {
    let mut rep = RunReport::default();
    let mut ph = Fnv::new();
    ph.str(&serde_json::to_string(&(&plan.history, &plan.crash_at)).unwrap());
    rep.prog_hash = ph.get();
    let tb = std::time::Instant::now();
    let Some(base) = base_image(plan) else { return rep };
    rep.count("wall_us.base_image", tb.elapsed().as_micros() as u64);
    let base_dump = match try_open(&base, Variant::File, DB) {
        Ok(Seen::Dump(d)) => Some(d),
        _ => None,
    };
    let mut lh = Fnv::new();
    for (i, m) in plan.muts.iter().enumerate() {
        let img = apply(&base, m);
        let changed = img != base;
        let mut variants = vec![(Variant::Mapped, DB.to_string()), (Variant::File, DB.to_string())];
        let mut scratch = None;
        if plan.open_memory_variant {
            // DbMemory loads through std::fs, not the seam: give it a real scratch file
            let p = format!("{}/target/tmp/c07-{}-{:x}-{i}", simcore::verif_dir(), std::process::id(), rep.prog_hash);
            let _ = std::fs::create_dir_all(format!("{}/target/tmp", simcore::verif_dir()));
            if std::fs::write(&p, img.get(DB).cloned().unwrap_or_default()).is_ok() {
                variants.push((Variant::Memory, p.clone()));
                scratch = Some(p);
            }
        }
        let t0 = std::time::Instant::now();
        let cut = changed && !plan.no_prescreen && known_record_index_trigger(&img);
        rep.count("wall_us.prescreen", t0.elapsed().as_micros() as u64);
        if cut {
            rep.count("entered_known_defect_territory.set_record_index", 1);
            rep.known_cut = Some("record index read from the file sizes the record table".into());
            if let Some(p) = scratch {
                let _ = std::fs::remove_file(p);
            }
            continue;
        }
        for (v, name) in variants {
            let Some(trial) = trials.begin() else { continue };
            rep.evals += 1;
            rep.count(&format!("fault.corrupt.{}", kind(m)), 1);
            let t1 = std::time::Instant::now();
            let opened = try_open(&img, v, &name);
            rep.count(&format!("wall_us.open_and_read.{v:?}"), t1.elapsed().as_micros() as u64);
            match opened {
                Ok(seen) => {
                    let (code, differs) = match &seen {
                        Seen::OpenErr => (1u64, true),
                        Seen::ReadErr => (2, true),
                        Seen::Hang => (3, true),
                        Seen::Dump(d) => (4, base_dump.as_ref().map(|b| **b != **d).unwrap_or(true)),
                    };
                    lh.u64(code);
                    if matches!(seen, Seen::Hang) {
                        rep.count("observation.step_budget_exceeded", 1);
                    }
                    if changed && differs {
                        rep.nontrivial += 1;
                    }
                }
                Err(p) => {
                    rep.viols.push(Viol { property: "C07".into(), class: panic_class(&p), detail: format!("mutation {i} {m:?}, opened as {v:?}: {p}"), trial });
                }
            }
        }
        if let Some(p) = scratch {
            let _ = std::fs::remove_file(p);
        }
    }
    rep.log_hash = lh.get();
    rep
}

fn kind(m: &Mut) -> &'static str {
    match m {
        Mut::Flip { .. } => "bit_flip",
        Mut::Truncate { .. } => "truncate",
        Mut::Set64 { .. } => "overwrite_u64_field",
        Mut::Fill { .. } => "fill_range",
        Mut::CopyRange { .. } => "duplicate_header",
        Mut::WalReplace { .. } => "garbage_log",
        Mut::WalRemove => "log_removed",
        Mut::DataReplace { .. } => "random_file",
        Mut::WalRecord { .. } => "forged_log_record",
    }
}
