//! C19 — every query terminates after any history (bounded liveness in simulated storage steps).

use crate::common::*;
use crate::dbexec::*;
use crate::dbprog::*;
use crate::simfs::SimFs;
use crate::wrapstore::{self, Counting};
use agdb::{DbImpl, FileStorage, FileStorageMemoryMapped, MemoryStorage, StorageData};
use serde::{Deserialize, Serialize};
use simcore::{Fnv, Rng};

/// Storage calls one query may issue: more than an order of magnitude above the largest legitimate
/// query of these workloads (the measured maximum is reported in the evidence as
/// `max_storage_calls_in_one_query`: about 70-110 thousand at the quick tier).
pub const BUDGET: u64 = 2_000_000;

/// `VERIF_C19_BUDGET` overrides the budget when a replay is examined by hand (is it slow or endless?).
fn budget() -> u64 {
    std::env::var("VERIF_C19_BUDGET").ok().and_then(|s| s.parse().ok()).unwrap_or(BUDGET)
}

#[derive(Clone, Copy, Debug, Serialize, Deserialize, PartialEq)]
pub enum Store {
    Memory,
    File,
    Mapped,
}

#[derive(Clone, Debug, Serialize, Deserialize)]
pub struct Plan {
    pub store: Store,
    pub steps: Vec<Op>,
}

pub fn generate(seed: u64, run: u64, tier: Tier) -> Plan {
    let mut rng = Rng::derive(seed, run, 19);
    let profile = if rng.chance(3, 4) { Profile::Churn } else { Profile::Wide };
    let mut cfg = default_cfg(&mut rng, profile);
    cfg.steps = match tier {
        Tier::Quick => rng.range(100, 700),
        Tier::Thorough => rng.range(200, 2000),
    };
    cfg.invalid = false;
    // the size knobs multiply the legitimate cost of one query (200 pairs on every element of a search result
    // came within 15 % of the budget, and over it with another seed): termination is judged on ordinary sizes
    cfg.many_keys = false;
    cfg.big_values = false;
    cfg.w[15] = cfg.w[15] * 2 + 30; // churn: fresh aliases / fresh indexed values on few elements
    cfg.w[7] += 10; // remove aliases
    cfg.w[8] += 4; // indexes
    cfg.w[12] += 6; // remove values
    let steps = crate::dbprog::generate(&mut rng, cfg);
    Plan { store: *rng.pick(&[Store::Memory, Store::Memory, Store::File, Store::Mapped]), steps }
}

fn run_on<S: StorageData>(db: &mut DbImpl<S>, plan: &Plan, max_calls: &mut u64, evals: &mut u64) -> Option<(String, String)> {
    let mut sh = Shadow::default();
    for (n, op) in plan.steps.iter().enumerate() {
        let c0 = wrapstore::calls();
        wrapstore::set_budget(Some(budget()));
        let r = catch(|| step(db, &mut sh, op));
        wrapstore::set_budget(None);
        *evals += 1;
        *max_calls = (*max_calls).max(wrapstore::calls() - c0);
        match r {
            Caught::Ok(_) => {}
            Caught::Budget => return Some(("query-does-not-terminate".into(), format!("step {n} {} issued more than {BUDGET} storage calls without returning", op.name()))),
            Caught::Panic(_) => return None, // a panic is not this property's business
        }
        if n % 50 == 49 || n + 1 == plan.steps.len() {
            let c0 = wrapstore::calls();
            wrapstore::set_budget(Some(BUDGET * 20));
            let r = catch(|| dump(db));
            wrapstore::set_budget(None);
            *max_calls = (*max_calls).max((wrapstore::calls() - c0) / 20);
            if let Caught::Budget = r {
                return Some(("read-does-not-terminate".into(), format!("reading the database after step {n} {} exceeded the step budget", op.name())));
            }
        }
    }
    None
}

pub fn exec(plan: &Plan, trials: &mut Trials) -> RunReport {
    let mut rep = RunReport::default();
    let mut ph = Fnv::new();
    ph.str(&serde_json::to_string(plan).unwrap());
    rep.prog_hash = ph.get();
    let _ = trials.begin();
    let fs = SimFs::new();
    fs.install();
    let mut max_calls = 0u64;
    let mut evals = 0u64;
    let calls0 = wrapstore::calls();
    let out = catch(|| match plan.store {
        Store::Memory => {
            let mut db = DbImpl::with_data(Counting(MemoryStorage::new("/sim/mem").unwrap())).unwrap();
            run_on(&mut db, plan, &mut max_calls, &mut evals)
        }
        Store::File => {
            let mut db = DbImpl::with_data(Counting(FileStorage::new("/sim/db").unwrap())).unwrap();
            run_on(&mut db, plan, &mut max_calls, &mut evals)
        }
        Store::Mapped => {
            let mut db = DbImpl::with_data(Counting(FileStorageMemoryMapped::new("/sim/db").unwrap())).unwrap();
            run_on(&mut db, plan, &mut max_calls, &mut evals)
        }
    });
    SimFs::uninstall();
    rep.evals = evals;
    rep.log_hash = fs.hash() ^ (wrapstore::calls() - calls0);
    rep.probes();
    rep.count("max_storage_calls_in_one_query", 0);
    rep.counters.insert("max_storage_calls_in_one_query".into(), max_calls);
    let tomb = rep.counters.get("probe.multi_map.insert_or_replace.over_deleted").copied().unwrap_or(0);
    if tomb >= 64 {
        rep.nontrivial = 1;
    }
    match out {
        Caught::Ok(None) => {}
        Caught::Ok(Some((class, detail))) => rep.viols.push(Viol { property: "C19".into(), class, detail, trial: 0 }),
        Caught::Panic(_) | Caught::Budget => {}
    }
    rep
}
