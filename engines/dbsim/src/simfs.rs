//! In-memory simulated file system behind agdb's `verif::SimFs` seam.
//!
//! Every mutating call (create, write, set_len) is a numbered *event* and is
//! journalled, so that the disk image at any crash point (a prefix of the
//! events, optionally with a torn last write) can be reconstructed. Faults
//! (errors, short writes, EINTR, short reads) are injected by event/call number.

use agdb::verif::{OpenFlags, SimFs as SimFsTrait};
use simcore::Fnv;
use std::collections::BTreeMap;
use std::io::{self, SeekFrom};
use std::sync::{Arc, Mutex};

pub const PREFIX: &str = "/sim/";
pub const MAX_FILE: u64 = 64 << 20;

pub type Image = BTreeMap<String, Vec<u8>>;

#[derive(Clone, Debug)]
pub enum EvOp {
    Create,
    Write { pos: u64, data: Vec<u8> },
    SetLen { len: u64 },
    /// the file at `path` gets the name `to` (replacing whatever was there)
    Rename { to: String },
    /// the name `path` is gone (an open handle keeps the data under a detached name)
    Remove,
}

#[derive(Clone, Debug)]
pub struct Event {
    pub path: String,
    pub op: EvOp,
}

#[derive(Clone, Copy, Debug, PartialEq, Eq, serde::Serialize, serde::Deserialize)]
pub enum FaultKind {
    /// the call returns ENOSPC and has no effect
    NoSpace,
    /// the call returns EIO and has no effect
    Io,
    /// a write applies only a prefix and returns its length (write_all continues)
    ShortWrite,
    /// the call returns EINTR once (write_all / read_exact retry)
    Interrupted,
}

#[derive(Clone, Copy, Debug, Default)]
pub struct Counters {
    pub opens: u64,
    pub reads: u64,
    pub writes: u64,
    pub set_lens: u64,
    pub seeks: u64,
    pub faults_nospace: u64,
    pub faults_io: u64,
    pub faults_short_write: u64,
    pub faults_eintr: u64,
    pub faults_short_read: u64,
}

struct Handle {
    path: String,
    pos: u64,
    read: bool,
    write: bool,
}

pub use simcore::harness::BudgetExceeded;

struct Inner {
    files: Image,
    handles: BTreeMap<u64, Handle>,
    next_handle: u64,
    detached: u64,
    journal: Option<Vec<Event>>,
    events: u64,
    calls: u64,
    hash: Fnv,
    counters: Counters,
    /// fail the mutating event with this number (0-based) with this kind
    fail_event: Option<(u64, FaultKind)>,
    /// benign noise: every n-th read is short / every n-th call gets EINTR (0 = off)
    short_read_every: u64,
    eintr_every: u64,
    short_write_every: u64,
    eintr_pending_skip: bool,
    budget: Option<u64>,
}

pub struct SimFs {
    inner: Mutex<Inner>,
    yield_hook: Option<fn()>,
}

fn enospc() -> io::Error {
    io::Error::from_raw_os_error(28)
}
fn eio() -> io::Error {
    io::Error::from_raw_os_error(5)
}

impl SimFs {
    pub fn new() -> Arc<SimFs> {
        Self::from_image(Image::new())
    }

    pub fn from_image(files: Image) -> Arc<SimFs> {
        Arc::new(SimFs {
            inner: Mutex::new(Inner {
                files,
                handles: BTreeMap::new(),
                next_handle: 1,
                detached: 0,
                journal: None,
                events: 0,
                calls: 0,
                hash: Fnv::new(),
                counters: Counters::default(),
                fail_event: None,
                short_read_every: 0,
                eintr_every: 0,
                short_write_every: 0,
                eintr_pending_skip: false,
                budget: None,
            }),
            yield_hook: None,
        })
    }

    pub fn with_yield(files: Image, hook: fn()) -> Arc<SimFs> {
        let fs = Self::from_image(files);
        let mut fs = Arc::try_unwrap(fs).ok().unwrap();
        fs.yield_hook = Some(hook);
        Arc::new(fs)
    }

    fn lock(&self) -> std::sync::MutexGuard<'_, Inner> {
        self.inner.lock().unwrap_or_else(|e| e.into_inner())
    }

    pub fn install(self: &Arc<Self>) {
        let fs: Arc<dyn SimFsTrait> = self.clone();
        agdb::verif::install_fs(Some(fs));
    }

    pub fn uninstall() {
        agdb::verif::install_fs(None);
    }

    pub fn record(&self, on: bool) {
        let mut i = self.lock();
        i.journal = if on { Some(vec![]) } else { None };
    }

    pub fn take_journal(&self) -> Vec<Event> {
        self.lock().journal.replace(vec![]).unwrap_or_default()
    }

    pub fn journal_len(&self) -> usize {
        self.lock().journal.as_ref().map(|j| j.len()).unwrap_or(0)
    }

    pub fn events(&self) -> u64 {
        self.lock().events
    }

    pub fn calls(&self) -> u64 {
        self.lock().calls
    }

    pub fn image(&self) -> Image {
        self.lock().files.clone()
    }

    pub fn file(&self, path: &str) -> Option<Vec<u8>> {
        self.lock().files.get(path).cloned()
    }

    pub fn file_len(&self, path: &str) -> Option<u64> {
        self.lock().files.get(path).map(|f| f.len() as u64)
    }

    pub fn set_file(&self, path: &str, data: Vec<u8>) {
        self.lock().files.insert(path.to_string(), data);
    }

    pub fn remove_file(&self, path: &str) {
        self.lock().files.remove(path);
    }

    pub fn hash(&self) -> u64 {
        self.lock().hash.get()
    }

    pub fn counters(&self) -> Counters {
        self.lock().counters
    }

    pub fn fail_event(&self, at: Option<(u64, FaultKind)>) {
        self.lock().fail_event = at;
    }

    pub fn noise(&self, short_read_every: u64, eintr_every: u64, short_write_every: u64) {
        let mut i = self.lock();
        i.short_read_every = short_read_every;
        i.eintr_every = eintr_every;
        i.short_write_every = short_write_every;
    }

    pub fn set_budget(&self, b: Option<u64>) {
        let mut i = self.lock();
        i.budget = b.map(|b| i.calls + b);
    }

    pub fn open_handles(&self) -> usize {
        self.lock().handles.len()
    }

    fn pre(&self) {
        if let Some(h) = self.yield_hook {
            h();
        }
    }
}

impl Inner {
    fn call(&mut self, kind: u8) {
        self.calls += 1;
        self.hash.bytes(&[kind]);
        if let Some(b) = self.budget
            && self.calls > b
        {
            self.budget = None;
            std::panic::panic_any(BudgetExceeded);
        }
    }

    /// Returns Some(kind) if the upcoming mutating event must fail.
    fn event_fault(&mut self) -> Option<FaultKind> {
        if let Some((n, kind)) = self.fail_event
            && n == self.events
        {
            self.fail_event = None;
            return Some(kind);
        }
        None
    }

    fn eintr_noise(&mut self) -> bool {
        if self.eintr_every != 0 && self.calls % self.eintr_every == 0 {
            if self.eintr_pending_skip {
                self.eintr_pending_skip = false;
                return false;
            }
            self.eintr_pending_skip = true;
            self.counters.faults_eintr += 1;
            return true;
        }
        self.eintr_pending_skip = false;
        false
    }

    fn path_fault(&mut self, kind: FaultKind) -> io::Error {
        match kind {
            FaultKind::NoSpace => {
                self.counters.faults_nospace += 1;
                enospc()
            }
            _ => {
                self.counters.faults_io += 1;
                eio()
            }
        }
    }

    /// If handles are open on the file named `path`, it continues under a detached name.
    fn detach(&mut self, path: &str) {
        if !self.files.contains_key(path) || !self.handles.values().any(|h| h.path == path) {
            return;
        }
        self.detached += 1;
        let name = format!("{PREFIX}.detached#{}", self.detached);
        let f = self.files.get(path).cloned().unwrap_or_default();
        self.files.insert(name.clone(), f);
        for h in self.handles.values_mut() {
            if h.path == path {
                h.path = name.clone();
            }
        }
    }

    fn journal(&mut self, path: &str, op: EvOp) {
        self.events += 1;
        if let Some(j) = self.journal.as_mut() {
            j.push(Event { path: path.to_string(), op });
        }
    }
}

pub fn apply_event(files: &mut Image, ev: &Event) {
    match &ev.op {
        EvOp::Create => {
            files.entry(ev.path.clone()).or_default();
        }
        EvOp::Write { pos, data } => {
            let f = files.entry(ev.path.clone()).or_default();
            let end = *pos as usize + data.len();
            if f.len() < end {
                f.resize(end, 0);
            }
            f[*pos as usize..end].copy_from_slice(data);
        }
        EvOp::SetLen { len } => {
            let f = files.entry(ev.path.clone()).or_default();
            f.resize(*len as usize, 0);
        }
        EvOp::Rename { to } => {
            if let Some(f) = files.remove(&ev.path) {
                files.insert(to.clone(), f);
            }
        }
        EvOp::Remove => {
            files.remove(&ev.path);
        }
    }
}

/// Applies only the first `n` bytes of a write event (torn write).
pub fn apply_torn(files: &mut Image, ev: &Event, n: usize) {
    if let EvOp::Write { pos, data } = &ev.op {
        let n = n.min(data.len());
        if n == 0 {
            return;
        }
        let t = Event { path: ev.path.clone(), op: EvOp::Write { pos: *pos, data: data[..n].to_vec() } };
        apply_event(files, &t);
    }
}

impl SimFsTrait for SimFs {
    fn owns(&self, path: &str) -> bool {
        path.starts_with(PREFIX)
    }

    fn open(&self, path: &str, flags: OpenFlags) -> io::Result<u64> {
        self.pre();
        let mut i = self.lock();
        i.call(1);
        i.counters.opens += 1;
        i.hash.str(path);
        let exists = i.files.contains_key(path);
        if !exists {
            if !flags.create {
                return Err(io::Error::from(io::ErrorKind::NotFound));
            }
            if let Some(kind) = i.event_fault() {
                match kind {
                    FaultKind::NoSpace => {
                        i.counters.faults_nospace += 1;
                        return Err(enospc());
                    }
                    _ => {
                        i.counters.faults_io += 1;
                        return Err(eio());
                    }
                }
            }
            i.files.insert(path.to_string(), vec![]);
            i.journal(path, EvOp::Create);
        } else if flags.truncate && flags.write {
            i.files.insert(path.to_string(), vec![]);
            i.journal(path, EvOp::SetLen { len: 0 });
        }
        let h = i.next_handle;
        i.next_handle += 1;
        i.handles.insert(h, Handle { path: path.to_string(), pos: 0, read: flags.read, write: flags.write });
        Ok(h)
    }

    fn read(&self, handle: u64, buf: &mut [u8]) -> io::Result<usize> {
        self.pre();
        let mut i = self.lock();
        i.call(2);
        i.counters.reads += 1;
        if i.eintr_noise() {
            return Err(io::Error::from(io::ErrorKind::Interrupted));
        }
        let (path, pos, can_read) = {
            let h = i.handles.get(&handle).ok_or_else(|| io::Error::other("bad handle"))?;
            (h.path.clone(), h.pos, h.read)
        };
        if !can_read {
            return Err(io::Error::from(io::ErrorKind::PermissionDenied));
        }
        let mut want = buf.len();
        if i.short_read_every != 0 && want > 1 && i.counters.reads % i.short_read_every == 0 {
            want = 1 + (i.counters.reads as usize % (want - 1));
            i.counters.faults_short_read += 1;
        }
        let f = i.files.get(&path).ok_or_else(|| io::Error::from(io::ErrorKind::NotFound))?;
        let start = (pos as usize).min(f.len());
        let n = want.min(f.len() - start);
        buf[..n].copy_from_slice(&f[start..start + n]);
        i.hash.u64(pos).u64(n as u64);
        i.handles.get_mut(&handle).unwrap().pos = pos + n as u64;
        Ok(n)
    }

    fn write(&self, handle: u64, buf: &[u8]) -> io::Result<usize> {
        self.pre();
        let mut i = self.lock();
        i.call(3);
        i.counters.writes += 1;
        if i.eintr_noise() {
            return Err(io::Error::from(io::ErrorKind::Interrupted));
        }
        let (path, pos, can_write) = {
            let h = i.handles.get(&handle).ok_or_else(|| io::Error::other("bad handle"))?;
            (h.path.clone(), h.pos, h.write)
        };
        if !can_write {
            return Err(io::Error::from(io::ErrorKind::PermissionDenied));
        }
        if buf.is_empty() {
            return Ok(0);
        }
        if pos.saturating_add(buf.len() as u64) > MAX_FILE {
            return Err(io::Error::from_raw_os_error(27));
        }
        let mut n = buf.len();
        match i.event_fault() {
            Some(FaultKind::NoSpace) => {
                i.counters.faults_nospace += 1;
                return Err(enospc());
            }
            Some(FaultKind::Io) => {
                i.counters.faults_io += 1;
                return Err(eio());
            }
            Some(FaultKind::Interrupted) => {
                i.counters.faults_eintr += 1;
                return Err(io::Error::from(io::ErrorKind::Interrupted));
            }
            Some(FaultKind::ShortWrite) => {
                if n > 1 {
                    n = n.div_ceil(2);
                    i.counters.faults_short_write += 1;
                }
            }
            None => {
                if i.short_write_every != 0 && n > 1 && i.counters.writes % i.short_write_every == 0 {
                    n = 1 + (i.counters.writes as usize % (n - 1));
                    i.counters.faults_short_write += 1;
                }
            }
        }
        let data = buf[..n].to_vec();
        i.hash.str(&path).u64(pos).bytes(&data);
        let ev = Event { path: path.clone(), op: EvOp::Write { pos, data } };
        apply_event(&mut i.files, &ev);
        i.events += 1;
        if let Some(j) = i.journal.as_mut() {
            j.push(ev);
        }
        i.handles.get_mut(&handle).unwrap().pos = pos + n as u64;
        Ok(n)
    }

    fn seek(&self, handle: u64, pos: SeekFrom) -> io::Result<u64> {
        self.pre();
        let mut i = self.lock();
        i.call(4);
        i.counters.seeks += 1;
        let (path, cur) = {
            let h = i.handles.get(&handle).ok_or_else(|| io::Error::other("bad handle"))?;
            (h.path.clone(), h.pos)
        };
        let len = i.files.get(&path).map(|f| f.len() as u64).unwrap_or(0);
        let new = match pos {
            SeekFrom::Start(p) => p as i128,
            SeekFrom::End(d) => len as i128 + d as i128,
            SeekFrom::Current(d) => cur as i128 + d as i128,
        };
        if new < 0 || new > u64::MAX as i128 {
            return Err(io::Error::from(io::ErrorKind::InvalidInput));
        }
        i.handles.get_mut(&handle).unwrap().pos = new as u64;
        Ok(new as u64)
    }

    fn set_len(&self, handle: u64, len: u64) -> io::Result<()> {
        self.pre();
        let mut i = self.lock();
        i.call(5);
        i.counters.set_lens += 1;
        let (path, can_write) = {
            let h = i.handles.get(&handle).ok_or_else(|| io::Error::other("bad handle"))?;
            (h.path.clone(), h.write)
        };
        if !can_write {
            return Err(io::Error::from(io::ErrorKind::InvalidInput));
        }
        if len > MAX_FILE {
            // the simulated disk is small: absurd sizes are refused (EFBIG), never allocated
            return Err(io::Error::from_raw_os_error(27));
        }
        match i.event_fault() {
            Some(FaultKind::NoSpace) => {
                i.counters.faults_nospace += 1;
                return Err(enospc());
            }
            Some(_) => {
                i.counters.faults_io += 1;
                return Err(eio());
            }
            None => {}
        }
        i.hash.str(&path).u64(len);
        let ev = Event { path: path.clone(), op: EvOp::SetLen { len } };
        apply_event(&mut i.files, &ev);
        i.events += 1;
        if let Some(j) = i.journal.as_mut() {
            j.push(ev);
        }
        Ok(())
    }

    fn close(&self, handle: u64) {
        let mut i = self.lock();
        i.handles.remove(&handle);
    }

    // Path operations. Handles follow the file, not the name (POSIX): a renamed file keeps its open handles,
    // a removed or replaced file lives on under a detached name for as long as a handle is open on it.
    fn rename(&self, from: &str, to: &str) -> io::Result<()> {
        self.pre();
        let mut i = self.lock();
        i.call(5);
        i.hash.str(from).str(to);
        if !i.files.contains_key(from) {
            return Err(io::Error::from(io::ErrorKind::NotFound));
        }
        if let Some(kind) = i.event_fault() {
            return Err(i.path_fault(kind));
        }
        i.detach(to);
        let f = i.files.remove(from).unwrap();
        i.files.insert(to.to_string(), f);
        for h in i.handles.values_mut() {
            if h.path == from {
                h.path = to.to_string();
            }
        }
        i.journal(from, EvOp::Rename { to: to.to_string() });
        Ok(())
    }

    fn remove_file(&self, path: &str) -> io::Result<()> {
        self.pre();
        let mut i = self.lock();
        i.call(6);
        i.hash.str(path);
        if !i.files.contains_key(path) {
            return Err(io::Error::from(io::ErrorKind::NotFound));
        }
        if let Some(kind) = i.event_fault() {
            return Err(i.path_fault(kind));
        }
        i.detach(path);
        i.files.remove(path);
        i.journal(path, EvOp::Remove);
        Ok(())
    }

    fn copy(&self, from: &str, to: &str) -> io::Result<u64> {
        self.pre();
        let mut i = self.lock();
        i.call(7);
        i.hash.str(from).str(to);
        let Some(data) = i.files.get(from).cloned() else { return Err(io::Error::from(io::ErrorKind::NotFound)) };
        // not atomic: create/truncate the target, then write the content (two events a crash can separate)
        if let Some(kind) = i.event_fault() {
            return Err(i.path_fault(kind));
        }
        if i.files.contains_key(to) {
            i.files.insert(to.to_string(), vec![]);
            i.journal(to, EvOp::SetLen { len: 0 });
        } else {
            i.files.insert(to.to_string(), vec![]);
            i.journal(to, EvOp::Create);
        }
        if let Some(kind) = i.event_fault() {
            return Err(i.path_fault(kind));
        }
        i.files.insert(to.to_string(), data.clone());
        i.journal(to, EvOp::Write { pos: 0, data: data.clone() });
        Ok(data.len() as u64)
    }
}
