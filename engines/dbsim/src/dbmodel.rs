//! Abstract reference model of the database (multigraph + ordered properties +
//! alias bijection + index set) and the canonical dump both sides are compared through.

use crate::dbprog::*;
use std::collections::{BTreeMap, BTreeSet};

#[derive(Clone, Debug, Default, PartialEq)]
pub struct Model {
    pub nodes: BTreeSet<i64>,
    pub edges: BTreeMap<i64, (i64, i64)>,
    pub props: BTreeMap<i64, Vec<Kv>>,
    pub alias_of: BTreeMap<i64, String>,
    pub node_of: BTreeMap<String, i64>,
    pub indexes: BTreeSet<Val>,
}

/// A resolved element reference.
#[derive(Clone, Debug, PartialEq)]
pub enum RId {
    Id(i64),
    Alias(String),
}

/// Why the model predicts failure, with the property whose statement demands it.
#[derive(Clone, Debug)]
pub struct ModelErr {
    pub tag: &'static str,
    pub why: String,
}

fn merr<T>(tag: &'static str, why: impl Into<String>) -> Result<T, ModelErr> {
    Err(ModelErr { tag, why: why.into() })
}

/// Source of ids for newly created elements (taken from the database's answer).
pub struct NewIds<'a> {
    pub ids: &'a [i64],
    pub pos: usize,
    pub fake: i64,
    pub used: Vec<i64>,
}

impl<'a> NewIds<'a> {
    pub fn new(ids: &'a [i64]) -> Self {
        NewIds { ids, pos: 0, fake: 1 << 40, used: vec![] }
    }
    /// The id the database reported at result position `at`; fabricated when it gave none
    /// (it failed or returned too few).
    fn at(&mut self, at: usize, node: bool) -> i64 {
        self.pos = at + 1;
        if at < self.ids.len() {
            self.ids[at]
        } else {
            self.fake += 1;
            if node { self.fake } else { -self.fake }
        }
    }
}

impl Model {
    pub fn exists(&self, id: i64) -> bool {
        self.nodes.contains(&id) || self.edges.contains_key(&id)
    }

    pub fn resolve(&self, r: &RId) -> Option<i64> {
        match r {
            RId::Id(i) => self.exists(*i).then_some(*i),
            RId::Alias(a) => self.node_of.get(a).copied(),
        }
    }

    fn set_alias(&mut self, id: i64, alias: &str) {
        if let Some(old) = self.alias_of.remove(&id) {
            self.node_of.remove(&old);
        }
        if let Some(holder) = self.node_of.remove(alias) {
            self.alias_of.remove(&holder);
        }
        self.alias_of.insert(id, alias.to_string());
        self.node_of.insert(alias.to_string(), id);
    }

    fn set_kvs(&mut self, id: i64, kvs: &[Kv]) {
        let list = self.props.entry(id).or_default();
        for (k, v) in kvs {
            if let Some(slot) = list.iter_mut().find(|(kk, _)| kk == k) {
                slot.1 = v.clone();
            } else {
                list.push((k.clone(), v.clone()));
            }
        }
    }

    fn append_kvs(&mut self, id: i64, kvs: &[Kv]) {
        self.props.entry(id).or_default().extend(kvs.iter().cloned());
    }

    fn remove_keys(&mut self, id: i64, keys: &[Val]) -> u64 {
        let mut n = 0;
        if let Some(list) = self.props.get_mut(&id) {
            let before = list.len();
            list.retain(|(k, _)| !keys.contains(k));
            n = (before - list.len()) as u64;
        }
        n
    }

    pub fn remove_element(&mut self, id: i64) -> bool {
        if self.nodes.remove(&id) {
            if let Some(a) = self.alias_of.remove(&id) {
                self.node_of.remove(&a);
            }
            let incident: Vec<i64> = self.edges.iter().filter(|(_, (f, t))| *f == id || *t == id).map(|(e, _)| *e).collect();
            for e in incident {
                self.edges.remove(&e);
                self.props.remove(&e);
            }
            self.props.remove(&id);
            true
        } else if self.edges.remove(&id).is_some() {
            self.props.remove(&id);
            true
        } else {
            false
        }
    }

    fn new_node(&mut self, ids: &mut NewIds, at: usize) -> Result<i64, ModelErr> {
        let id = ids.at(at, true);
        if id <= 0 {
            return merr("C08", format!("new node received non-positive id {id}"));
        }
        if self.exists(id) || self.edges.contains_key(&-id) || self.nodes.contains(&-id) {
            return merr("C08", format!("new node received id {id} whose slot is in use"));
        }
        self.nodes.insert(id);
        ids.used.push(id);
        Ok(id)
    }

    fn new_edge(&mut self, ids: &mut NewIds, at: usize, from: i64, to: i64) -> Result<i64, ModelErr> {
        let id = ids.at(at, false);
        if id >= 0 {
            return merr("C08", format!("new edge received non-negative id {id}"));
        }
        if self.exists(id) || self.nodes.contains(&-id) {
            return merr("C08", format!("new edge received id {id} whose slot is in use"));
        }
        self.edges.insert(id, (from, to));
        ids.used.push(id);
        Ok(id)
    }

    /// Applies one (non-transaction) operation. `refs` resolves the op's references,
    /// `targets` are the ids a search sub-query returned (taken from the database).
    /// Returns the ids the query must report (insert queries) or Err when the statement demands failure.
    pub fn apply(&mut self, op: &Op, rr: &dyn Fn(&Ref) -> RId, targets: &[i64], ids: &mut NewIds) -> Result<Vec<i64>, ModelErr> {
        let mut out = vec![];
        match op {
            Op::InsertNodes { count, aliases, values } => {
                let n = (*count).max(aliases.len() as u64) as usize;
                let vals: Vec<&Vec<Kv>> = match values {
                    Values::Single(v) => vec![v; n],
                    Values::Multi(v) => v.iter().collect(),
                };
                if vals.len() < aliases.len() {
                    return merr("C08", "fewer value lists than aliases");
                }
                for (i, kvs) in vals.iter().enumerate() {
                    if let Some(alias) = aliases.get(i) {
                        if alias.is_empty() {
                            return merr("C10", "empty alias must be rejected");
                        }
                        if let Some(node) = self.node_of.get(alias).copied() {
                            self.set_kvs(node, kvs);
                            out.push(node);
                            continue;
                        }
                    }
                    let id = self.new_node(ids, out.len())?;
                    if let Some(alias) = aliases.get(i) {
                        self.set_alias(id, alias);
                    }
                    self.append_kvs(id, kvs);
                    out.push(id);
                }
            }
            Op::InsertNodesIds { ids: refs, aliases, values } => {
                let mut resolved = vec![];
                for r in refs {
                    match self.resolve(&rr(r)) {
                        Some(i) => resolved.push(i),
                        None => return merr("C08", "insert-or-update of a missing element"),
                    }
                }
                let vals: Vec<&Vec<Kv>> = match values {
                    Values::Single(v) => vec![v; resolved.len().max(aliases.len())],
                    Values::Multi(v) => v.iter().collect(),
                };
                if vals.len() < aliases.len() {
                    return merr("C08", "fewer value lists than aliases");
                }
                if resolved.iter().any(|i| *i < 0) {
                    return merr("C08", "insert-or-update of nodes given an edge id");
                }
                if vals.len() != resolved.len() {
                    return merr("C09", "values/ids length mismatch");
                }
                for (i, (id, kvs)) in resolved.iter().zip(vals).enumerate() {
                    self.set_kvs(*id, kvs);
                    if let Some(alias) = aliases.get(i) {
                        if alias.is_empty() {
                            return merr("C10", "empty alias must be rejected");
                        }
                        self.set_alias(*id, alias);
                    }
                    out.push(*id);
                }
            }
            Op::InsertEdges { from, to, each, values } => {
                let mut f = vec![];
                for r in from {
                    match self.resolve(&rr(r)) {
                        Some(i) => f.push(i),
                        None => return merr("C08", "edge from a missing element"),
                    }
                }
                let mut t = vec![];
                for r in to {
                    match self.resolve(&rr(r)) {
                        Some(i) => t.push(i),
                        None => return merr("C08", "edge to a missing element"),
                    }
                }
                let pairs: Vec<(i64, i64)> = if *each || f.len() != t.len() {
                    f.iter().flat_map(|a| t.iter().map(move |b| (*a, *b))).collect()
                } else {
                    f.iter().copied().zip(t.iter().copied()).collect()
                };
                let vals: Vec<&Vec<Kv>> = match values {
                    Values::Single(v) => vec![v; pairs.len().max(1)],
                    Values::Multi(v) => v.iter().collect(),
                };
                if vals.len() != pairs.len() {
                    return merr("C09", "values/edges length mismatch");
                }
                for ((a, b), kvs) in pairs.iter().zip(vals) {
                    if !self.nodes.contains(a) || !self.nodes.contains(b) {
                        return merr("C08", "edge endpoint is not an existing node");
                    }
                    let id = self.new_edge(ids, out.len(), *a, *b)?;
                    self.append_kvs(id, kvs);
                    out.push(id);
                }
            }
            Op::InsertEdgesIds { ids: refs, values } => {
                let mut resolved = vec![];
                for r in refs {
                    match self.resolve(&rr(r)) {
                        Some(i) => resolved.push(i),
                        None => return merr("C08", "insert-or-update of a missing element"),
                    }
                }
                if resolved.iter().any(|i| *i > 0) {
                    return merr("C08", "insert-or-update of edges given a node id");
                }
                let vals: Vec<&Vec<Kv>> = match values {
                    Values::Single(v) => vec![v; resolved.len().max(1)],
                    Values::Multi(v) => v.iter().collect(),
                };
                if vals.len() != resolved.len() {
                    return merr("C09", "values/ids length mismatch");
                }
                for (id, kvs) in resolved.iter().zip(vals) {
                    self.set_kvs(*id, kvs);
                    out.push(*id);
                }
            }
            Op::InsertValues { ids: refs, values } => {
                let lists: Vec<&Vec<Kv>> = match values {
                    Values::Single(v) => vec![v; refs.len()],
                    Values::Multi(v) => {
                        if v.len() != refs.len() {
                            return merr("C09", "values/ids length mismatch");
                        }
                        v.iter().collect()
                    }
                };
                for (r, kvs) in refs.iter().zip(lists) {
                    let rid = rr(r);
                    match self.resolve(&rid) {
                        Some(id) => self.set_kvs(id, kvs),
                        None => match rid {
                            RId::Id(0) => {
                                let id = self.new_node(ids, out.len())?;
                                self.append_kvs(id, kvs);
                                out.push(id);
                            }
                            RId::Id(_) => return merr("C09", "insert values on a missing element"),
                            RId::Alias(a) => {
                                if a.is_empty() {
                                    return merr("C10", "empty alias must be rejected");
                                }
                                let id = self.new_node(ids, out.len())?;
                                self.set_alias(id, &a);
                                self.append_kvs(id, kvs);
                                out.push(id);
                            }
                        },
                    }
                }
            }
            Op::InsertValuesSearch { values, .. } => {
                for id in targets {
                    if self.exists(*id) {
                        self.set_kvs(*id, values);
                    }
                }
            }
            Op::InsertAliases { ids: refs, aliases } => {
                if refs.len() != aliases.len() {
                    return merr("C10", "ids/aliases length mismatch");
                }
                for (r, alias) in refs.iter().zip(aliases) {
                    if alias.is_empty() {
                        return merr("C10", "empty alias must be rejected");
                    }
                    match self.resolve(&rr(r)) {
                        None => return merr("C10", "alias for a missing element"),
                        Some(id) if id < 0 => return merr("C10", "alias for an edge must be rejected"),
                        Some(id) => self.set_alias(id, alias),
                    }
                }
            }
            Op::RemoveAliases { aliases } => {
                for a in aliases {
                    if let Some(id) = self.node_of.remove(a) {
                        self.alias_of.remove(&id);
                    }
                }
            }
            Op::InsertIndex { key } => {
                if !self.indexes.insert(key.clone()) {
                    return merr("C11", "index already exists");
                }
            }
            Op::RemoveIndex { key } => {
                self.indexes.remove(key);
            }
            Op::Remove { ids: refs } => {
                for r in refs {
                    if let Some(id) = self.resolve(&rr(r)) {
                        self.remove_element(id);
                    }
                }
            }
            Op::RemoveSearch { .. } => {
                for id in targets {
                    self.remove_element(*id);
                }
            }
            Op::RemoveValues { ids: refs, keys } => {
                for r in refs {
                    match self.resolve(&rr(r)) {
                        Some(id) => {
                            self.remove_keys(id, keys);
                        }
                        None => return merr("C09", "remove values of a missing element"),
                    }
                }
            }
            Op::RemoveValuesSearch { keys, .. } => {
                for id in targets {
                    self.remove_keys(*id, keys);
                }
            }
            Op::Txn { .. } => unreachable!("transactions are unfolded by the executor"),
        }
        Ok(out)
    }

    pub fn default_tag(op: &Op) -> &'static str {
        match op {
            Op::InsertNodes { .. } | Op::InsertNodesIds { .. } | Op::InsertEdges { .. } | Op::InsertEdgesIds { .. } | Op::Remove { .. } | Op::RemoveSearch { .. } => "C08",
            Op::InsertValues { .. } | Op::InsertValuesSearch { .. } | Op::RemoveValues { .. } | Op::RemoveValuesSearch { .. } => "C09",
            Op::InsertAliases { .. } | Op::RemoveAliases { .. } => "C10",
            Op::InsertIndex { .. } | Op::RemoveIndex { .. } => "C11",
            Op::Txn { .. } => "C13",
        }
    }

    pub fn dump(&self) -> Dump {
        let mut d = Dump { node_count: self.nodes.len() as u64, ..Default::default() };
        let mut all: Vec<i64> = self.nodes.iter().copied().chain(self.edges.keys().copied()).collect();
        all.sort_by_key(|i| i.abs());
        d.elements = all.clone();
        d.edges = self.edges.clone();
        for id in &all {
            let kvs = self.props.get(id).cloned().unwrap_or_default();
            d.keys.insert(*id, kvs.iter().map(|(k, _)| k.clone()).collect());
            d.key_count.insert(*id, kvs.len() as u64);
            d.values.insert(*id, kvs);
            if *id > 0 {
                let from = self.edges.values().filter(|(f, _)| f == id).count() as u64;
                let to = self.edges.values().filter(|(_, t)| t == id).count() as u64;
                d.edge_counts.insert(*id, (from + to, from, to));
            }
        }
        d.alias = self.alias_of.clone();
        d.all_aliases = self.node_of.iter().map(|(a, i)| (a.clone(), *i)).collect();
        for key in &self.indexes {
            let mut count = 0u64;
            let mut hits: BTreeMap<Val, BTreeSet<i64>> = BTreeMap::new();
            for (id, kvs) in &self.props {
                for (k, v) in kvs {
                    if k == key {
                        count += 1;
                        hits.entry(v.clone()).or_default().insert(*id);
                    }
                }
            }
            d.indexes.insert(key.clone(), count);
            for (v, set) in hits {
                d.index_hits.insert((key.clone(), v), set);
            }
        }
        d
    }
}

/// Canonical observable state, produced both by the model and (through public read queries) by the database.
#[derive(Clone, Debug, Default, PartialEq)]
pub struct Dump {
    pub node_count: u64,
    /// result of the unconditional elements search, in its order
    pub elements: Vec<i64>,
    pub edges: BTreeMap<i64, (i64, i64)>,
    pub values: BTreeMap<i64, Vec<Kv>>,
    pub keys: BTreeMap<i64, Vec<Val>>,
    pub key_count: BTreeMap<i64, u64>,
    pub alias: BTreeMap<i64, String>,
    pub all_aliases: Vec<(String, i64)>,
    pub edge_counts: BTreeMap<i64, (u64, u64, u64)>,
    pub indexes: BTreeMap<Val, u64>,
    /// non-empty index search results only
    pub index_hits: BTreeMap<(Val, Val), BTreeSet<i64>>,
}

impl Dump {
    /// Order-insensitive form (C13 allows property order and edge order to differ).
    pub fn normalised(&self) -> Dump {
        let mut d = self.clone();
        for v in d.values.values_mut() {
            v.sort();
        }
        for v in d.keys.values_mut() {
            v.sort();
        }
        d
    }

    /// Differences, each tagged with the property whose statement it contradicts.
    pub fn diff(&self, other: &Dump, me: &str, them: &str) -> Vec<(&'static str, String)> {
        let mut out = vec![];
        if self.node_count != other.node_count {
            out.push(("C08", format!("node count: {me} {} vs {them} {}", self.node_count, other.node_count)));
        }
        if self.elements != other.elements {
            let mut a = self.elements.clone();
            let mut b = other.elements.clone();
            a.sort();
            b.sort();
            if a == b {
                out.push(("C18", format!("elements search order: {me} {:?} vs {them} {:?}", self.elements, other.elements)));
            } else {
                out.push(("C08", format!("element set: {me} {:?} vs {them} {:?}", self.elements, other.elements)));
                out.push(("C18", format!("elements search result: {me} {:?} vs {them} {:?}", self.elements, other.elements)));
            }
        }
        if self.edges != other.edges {
            out.push(("C08", format!("edge endpoints: {me} {:?} vs {them} {:?}", self.edges, other.edges)));
        }
        if self.edge_counts != other.edge_counts {
            out.push(("C08", format!("edge counts (total, from, to): {me} {:?} vs {them} {:?}", self.edge_counts, other.edge_counts)));
        }
        for (id, v) in &self.values {
            match other.values.get(id) {
                Some(w) if v == w => {}
                Some(w) => {
                    let same_keys = v.len() == w.len() && v.iter().zip(w.iter()).all(|(a, b)| a.0 == b.0);
                    let tag = if same_keys { "C12" } else { "C09" };
                    out.push((tag, format!("values of {id}: {me} {v:?} vs {them} {w:?}")));
                    if *id < 0 && !same_keys {
                        // C08: removing a node removes its edges together with their properties, so an edge
                        // must never show properties it was not given (e.g. inherited through id reuse)
                        out.push(("C08", format!("properties of edge {id}: {me} {v:?} vs {them} {w:?}")));
                    }
                }
                None => out.push(("C09", format!("values of {id}: {me} {v:?} vs {them} nothing"))),
            }
        }
        for id in other.values.keys() {
            if !self.values.contains_key(id) {
                out.push(("C09", format!("values of {id}: {me} nothing vs {them} {:?}", other.values[id])));
            }
        }
        if self.keys != other.keys {
            out.push(("C09", format!("keys: {me} {:?} vs {them} {:?}", self.keys, other.keys)));
        }
        if self.key_count != other.key_count {
            out.push(("C09", format!("key counts: {me} {:?} vs {them} {:?}", self.key_count, other.key_count)));
        }
        if self.alias != other.alias {
            out.push(("C10", format!("alias per node: {me} {:?} vs {them} {:?}", self.alias, other.alias)));
        }
        if self.all_aliases != other.all_aliases {
            out.push(("C10", format!("all aliases: {me} {:?} vs {them} {:?}", self.all_aliases, other.all_aliases)));
        }
        if self.indexes != other.indexes {
            out.push(("C11", format!("index listing: {me} {:?} vs {them} {:?}", self.indexes, other.indexes)));
        }
        if self.index_hits != other.index_hits {
            let mut d = String::new();
            for (k, v) in &self.index_hits {
                if other.index_hits.get(k) != Some(v) {
                    d += &format!(" [{k:?}: {me} {v:?} vs {them} {:?}]", other.index_hits.get(k));
                }
            }
            for (k, v) in &other.index_hits {
                if !self.index_hits.contains_key(k) {
                    d += &format!(" [{k:?}: {me} nothing vs {them} {v:?}]");
                }
            }
            out.push(("C11", format!("index search results:{d}")));
        }
        out
    }
}
