//! dbsim — deterministic storage / database simulator for agdb (engine E1 + E4).
//!
//!   dbsim check <Cxx> <quick|thorough>     supervisor (what ./check calls)
//!   dbsim worker <Cxx> <tier> <seed> ...   run executor (spawned by the supervisor)
//!   dbsim replay <file>                    re-executes a replay file in a fresh process
//!   dbsim exec-plan <Cxx> <file>           executes one plan, prints V/R lines
//!   dbsim selftest <Cxx>                   determinism self-test

mod c01;
mod c04;
mod cconc;
mod ccorrupt;
mod cmaint;
mod cterm;
mod wrapstore;
mod cfault;
mod cabort;
mod ccrash;
mod cmodel;
mod registry;
mod sexec;
mod sprog;

use dbsim::{common, dbexec, dbmodel, dbprog, simfs};

#[global_allocator]
static ALLOC: common::CapAlloc = common::CapAlloc;

fn main() {
    let eng = common::Engine {
        name: "dbsim",
        find: registry::find,
        simulated_time: "no clock exists in the storage/database layer; progress is counted in simulated file-system calls (counters fs.*)",
        alloc_cap: 96 << 20,
        // C07 trials are millisecond-scale and may spin without any storage call on damaged data:
        // a short silence window keeps such observations cheap
        hang_s: |id| if id == "C07" { 4 } else { 30 },
    };
    std::process::exit(simcore::harness::main_dispatch(&eng));
}
