//! dbsim — deterministic storage / database simulator for agdb (engine E1 + E4).
//!
//!   dbsim check <Cxx> <quick|thorough>     supervisor (what ./check calls)
//!   dbsim worker <Cxx> <tier> <seed> ...   run executor (spawned by the supervisor)
//!   dbsim replay <file>                    re-executes a replay file in a fresh process
//!   dbsim exec-plan <Cxx> <file>           executes one plan, prints V/R lines
//!   dbsim selftest <Cxx>                   determinism self-test

mod c01;
mod c04;
mod cconc;
mod ccorrupt;
mod cmaint;
mod cterm;
mod wrapstore;
mod cfault;
mod cabort;
mod ccrash;
mod cmodel;
mod dbexec;
mod dbmodel;
mod dbprog;
mod common;
mod registry;
mod sexec;
mod simfs;
mod sprog;
mod supervisor;

#[global_allocator]
static ALLOC: common::CapAlloc = common::CapAlloc;

fn main() {
    let args: Vec<String> = std::env::args().collect();
    let code = match args.get(1).map(|s| s.as_str()) {
        Some("check") => supervisor::check(&args[2], common::Tier::parse(args.get(3).map(|s| s.as_str()).unwrap_or("quick"))),
        Some("worker") => supervisor::worker(&args),
        Some("replay") => supervisor::replay(&args[2]),
        Some("exec-plan") => supervisor::exec_plan(&args[2], &args[3]),
        Some("gen-plan") => {
            // dbsim gen-plan <Cxx> <tier> <seed> <run>: prints the plan a worker would execute
            let def = registry::find(&args[2]).expect("unknown check");
            let plan = (def.generate)(args[4].parse().unwrap(), args[5].parse().unwrap(), common::Tier::parse(&args[3]));
            println!("{}", serde_json::to_string(&plan).unwrap());
            0
        }
        Some("selftest") => supervisor::selftest(&args[2], 40),
        _ => {
            eprintln!("usage: dbsim check|worker|replay|exec-plan|selftest ...");
            2
        }
    };
    std::process::exit(code);
}
