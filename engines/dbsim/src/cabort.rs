//! C13 — a failed transaction or query leaves no observable effect.
//! Abort injection: the closure returns an error after query k, a query fails logically after
//! partial work, (and with `fail_io`) one storage call inside the step returns an error.

use crate::common::*;
use crate::dbexec::*;
use crate::dbprog::*;
use crate::simfs::SimFs;
use dbsim::with_db;
use serde::{Deserialize, Serialize};
use simcore::{Fnv, Rng};

#[derive(Clone, Debug, Serialize, Deserialize)]
pub struct Plan {
    pub variant: Variant,
    pub noise: [u64; 3],
    pub steps: Vec<Op>,
}

const ALL_VARIANTS: [Variant; 6] = [Variant::Memory, Variant::File, Variant::Mapped, Variant::AnyMemory, Variant::AnyFile, Variant::AnyMapped];

pub fn generate(seed: u64, run: u64, _tier: Tier) -> Plan {
    let mut rng = Rng::derive(seed, run, 13);
    let profile = match rng.below(10) {
        0 => Profile::Wide,
        1 => Profile::Churn,
        2 | 3 => Profile::Values,
        _ => Profile::Small,
    };
    let mut cfg = default_cfg(&mut rng, profile);
    cfg.txn = true;
    cfg.invalid = true;
    cfg.w[14] = cfg.w[14] * 3 + 15;
    // operations whose undo is the interesting part
    for i in [4usize, 6, 8, 9, 10, 12] {
        cfg.w[i] = cfg.w[i] * 2 + 3;
    }
    if matches!(profile, Profile::Wide | Profile::Churn) {
        cfg.steps = rng.range(60, 160);
    }
    let steps = crate::dbprog::generate(&mut rng, cfg);
    let variant = *rng.pick(&ALL_VARIANTS);
    let noise_on = variant.file_backed() && rng.chance(1, 5);
    Plan { variant, noise: if noise_on { [rng.range(2, 9), 0, rng.range(2, 7)] } else { [0, 0, 0] }, steps }
}

pub fn exec(plan: &Plan, trials: &mut Trials) -> RunReport {
    let mut rep = RunReport::default();
    let mut ph = Fnv::new();
    ph.str(&serde_json::to_string(plan).unwrap());
    rep.prog_hash = ph.get();
    let _ = trials.begin();
    let fs = SimFs::new();
    fs.noise(plan.noise[0], plan.noise[1], plan.noise[2]);
    fs.install();
    let mut evals = 0u64;
    let mut nontrivial = 0u64;
    let mut lh = Fnv::new();
    let mut kinds = [0u64; 3];
    let out = catch(|| -> Option<(String, String)> {
        let name = if plan.variant.file_backed() { "/sim/db" } else { "/sim/memdb" };
        let mut db = match AnyDb::open(plan.variant, name) {
            Ok(d) => d,
            Err(e) => return Some(("HARNESS".into(), format!("create failed: {}", e.description))),
        };
        let mut sh = Shadow::default();
        for (n, op) in plan.steps.iter().enumerate() {
            let before = match with_db!(&db, d => dump(d)) {
                Ok(d) => d,
                Err(_) => return None, // unreadable state is C02/C08-C11 territory
            };
            let ev0 = fs.events();
            let o = with_db!(&mut db, d => step(d, &mut sh, op));
            lh.u64(o.ok as u64);
            if o.ok {
                continue;
            }
            evals += 1;
            let after_queries = match (op, o.query_failed_at) {
                (Op::Txn { .. }, Some(i)) => {
                    kinds[1] += 1;
                    i as u64
                }
                (Op::Txn { fail_after, .. }, None) => {
                    kinds[0] += 1;
                    fail_after.unwrap_or(0)
                }
                (_, _) => {
                    kinds[2] += 1;
                    0
                }
            };
            if after_queries >= 1 || fs.events() > ev0 {
                nontrivial += 1;
            }
            let after = match with_db!(&db, d => dump(d)) {
                Ok(d) => d,
                Err(e) => return Some(("unreadable-after-rollback".into(), format!("step {n} {} failed ({}) and afterwards {e}", op.name(), o.err.unwrap_or_default()))),
            };
            let (a, b) = (before.normalised(), after.normalised());
            if a != b {
                let d = a.diff(&b, "before", "after");
                let first = d.first().map(|(_, m)| m.clone()).unwrap_or_default();
                let class = first.split(':').next().unwrap_or("state").chars().filter(|c| !c.is_ascii_digit() && *c != '-').collect::<String>().split_whitespace().collect::<Vec<_>>().join("-");
                return Some((format!("effect-after-failure:{class}"), format!("step {n} {} failed ({}) but left an effect: {first}", op.name(), o.err.unwrap_or_default())));
            }
            // the model keeps the pre-state; adopt the (possibly permuted) property order
            for (id, kvs) in &after.values {
                sh.model.props.insert(*id, kvs.clone());
            }
            sh.model.props.retain(|_, v| !v.is_empty());
        }
        None
    });
    SimFs::uninstall();
    rep.evals = evals;
    rep.nontrivial = nontrivial;
    rep.log_hash = fs.hash() ^ lh.get();
    rep.count("fault.abort.closure_error", kinds[0]);
    rep.count("fault.abort.query_failed_in_transaction", kinds[1]);
    rep.count("fault.abort.single_query_failed", kinds[2]);
    let c = fs.counters();
    rep.count("fault.short_write", c.faults_short_write);
    rep.count("fault.short_read", c.faults_short_read);
    rep.probes();
    match out {
        Caught::Ok(None) => {}
        Caught::Ok(Some((class, detail))) => {
            let property = if class == "HARNESS" { "HARNESS" } else { "C13" };
            rep.viols.push(Viol { property: property.into(), class, detail, trial: 0 });
        }
        Caught::Panic(p) => rep.viols.push(Viol { property: "C13".into(), class: panic_class(&p), detail: p, trial: 0 }),
        Caught::Budget => {}
    }
    rep
}
