//! Storage-layer programs (C01, C04): operations on agdb's crate-private
//! `Storage` through the `VerifStorage` hook, a byte-level reference model,
//! and the generator.

use serde::{Deserialize, Serialize};
use simcore::Rng;
use std::collections::BTreeMap;

#[derive(Clone, Debug, Serialize, Deserialize, PartialEq)]
pub enum SOp {
    Insert { bytes: Vec<u8> },
    InsertAt { slot: u64, offset: u64, bytes: Vec<u8> },
    Replace { slot: u64, bytes: Vec<u8> },
    Resize { slot: u64, size: u64 },
    Move { slot: u64, from: u64, to: u64, size: u64 },
    Remove { slot: u64 },
    Optimize,
    /// open a (nested) storage transaction
    Begin,
    /// commit the innermost open transaction
    End,
    /// clean restart: drop (no open transaction) and reopen
    Reopen,
    /// drop the storage while transactions are open, then reopen
    DropOpen,
}

#[derive(Clone, Copy, Debug, Serialize, Deserialize, PartialEq, Eq)]
pub enum Backend {
    File,
    Mapped,
    Memory,
}

const SIZES: [u64; 18] = [0, 1, 7, 8, 9, 15, 16, 17, 23, 24, 31, 32, 33, 40, 48, 64, 100, 200];

fn size(rng: &mut Rng, big: bool) -> u64 {
    if big && rng.chance(1, 6) {
        return rng.range(4090, 9000);
    }
    if rng.chance(1, 12) { rng.range(0, 400) } else { *rng.pick(&SIZES) }
}

fn payload(rng: &mut Rng, n: u64, tag: &mut u8) -> Vec<u8> {
    *tag = tag.wrapping_add(1);
    if *tag == 0 {
        *tag = 1;
    }
    if rng.chance(1, 10) {
        // zero-filled payloads are ordinary input too
        return vec![0u8; n as usize];
    }
    let mut v = vec![*tag; n as usize];
    // a few random bytes so equal-tag regions still differ
    for i in 0..(n as usize).min(4) {
        v[i] = (rng.next() as u8) | 1;
    }
    v
}

pub struct GenCfg {
    pub min_ops: u64,
    pub max_ops: u64,
    pub transactions: bool,
    pub reopen: bool,
    pub drop_open: bool,
}

pub fn generate(rng: &mut Rng, cfg: &GenCfg) -> Vec<SOp> {
    let n = rng.range(cfg.min_ops, cfg.max_ops);
    let mut ops = Vec::new();
    let mut tag = 0u8;
    let mut depth = 0u64;
    // generator-side shadow: size of every slot, None once removed. Only valid
    // operations are generated (mutating a removed index is outside the properties'
    // quantifier; the executor additionally skips anything its model deems invalid).
    let mut sizes: Vec<Option<u64>> = Vec::new();
    // swarm knob: one program in six also uses values larger than a page (and is then kept short)
    let big = rng.chance(1, 6);
    let n = if big { n.min(60) } else { n };
    let w_insert = rng.range(10, 30);
    let w_remove = rng.range(4, 20);
    let w_txn = if cfg.transactions { rng.range(0, 10) } else { 0 };
    while (ops.len() as u64) < n {
        let live: Vec<usize> = sizes.iter().enumerate().filter(|(_, s)| s.is_some()).map(|(i, _)| i).collect();
        let has = !live.is_empty();
        let w = [
            w_insert,
            if has { 15 } else { 0 },
            if has { 15 } else { 0 },
            if has { 12 } else { 0 },
            if has { 8 } else { 0 },
            if has { w_remove } else { 0 },
            3,
            if depth < 4 { w_txn } else { 0 },
            if depth > 0 { w_txn + 2 } else { 0 },
            if cfg.reopen && depth == 0 { 3 } else { 0 },
            if cfg.drop_open && depth > 0 { 1 } else { 0 },
        ];
        let slot_i = if has { *rng.pick(&live) } else { 0 };
        let slot = slot_i as u64;
        match rng.weighted(&w) {
            0 => {
                let s = size(rng, big);
                ops.push(SOp::Insert { bytes: payload(rng, s, &mut tag) });
                sizes.push(Some(s));
            }
            1 => {
                let s = if big && rng.chance(1, 3) { size(rng, big) } else { size(rng, big).min(64) };
                let cur = sizes[slot_i].unwrap();
                let offset = match rng.below(6) {
                    0 => rng.range(0, 300),
                    1 => cur,
                    2 => cur.saturating_sub(s),
                    3 => cur + *rng.pick(&SIZES[..8]),
                    _ => rng.below(cur + 1),
                };
                ops.push(SOp::InsertAt { slot, offset, bytes: payload(rng, s, &mut tag) });
                sizes[slot_i] = Some(cur.max(offset + s));
            }
            2 => {
                let cur = sizes[slot_i].unwrap();
                let s = match rng.below(5) {
                    0 => cur,
                    1 => cur.saturating_sub(*rng.pick(&SIZES[..8])),
                    2 => cur + *rng.pick(&SIZES[..8]),
                    _ => size(rng, big),
                };
                ops.push(SOp::Replace { slot, bytes: payload(rng, s, &mut tag) });
                sizes[slot_i] = Some(s);
            }
            3 => {
                let cur = sizes[slot_i].unwrap();
                let s = match rng.below(5) {
                    0 => cur.saturating_sub(*rng.pick(&SIZES[..8])),
                    1 => cur + *rng.pick(&SIZES[..8]),
                    2 => 0,
                    _ => size(rng, big),
                };
                ops.push(SOp::Resize { slot, size: s });
                sizes[slot_i] = Some(s);
            }
            4 => {
                let cur = sizes[slot_i].unwrap();
                let sz = rng.below(cur + 1).min(*rng.pick(&SIZES[..12]));
                let from = rng.below(cur - sz + 1);
                let to = if rng.chance(1, 4) { cur + *rng.pick(&SIZES[..6]) } else { rng.below(cur + 1) };
                ops.push(SOp::Move { slot, from, to, size: sz });
                sizes[slot_i] = Some(cur.max(to + sz));
            }
            5 => {
                ops.push(SOp::Remove { slot });
                sizes[slot_i] = None;
            }
            6 => ops.push(SOp::Optimize),
            7 => {
                ops.push(SOp::Begin);
                depth += 1;
            }
            8 => {
                ops.push(SOp::End);
                depth -= 1;
            }
            9 => ops.push(SOp::Reopen),
            _ => {
                ops.push(SOp::DropOpen);
                depth = 0;
                // everything since the outermost Begin is rolled back: the shadow is no longer
                // exact; the executor's model decides validity from here on
            }
        }
    }
    if !cfg.drop_open || rng.chance(2, 3) {
        for _ in 0..depth {
            ops.push(SOp::End);
        }
    }
    ops
}

/// Byte-level reference model of the storage values.
#[derive(Clone, Debug, Default, PartialEq)]
pub struct Model {
    pub live: BTreeMap<u64, Vec<u8>>,
}

impl Model {
    /// Applies `op` given the resolved storage index (None = no such slot).
    /// Returns Ok(()) if the operation must succeed, Err(()) if it must fail without effect.
    pub fn apply(&mut self, op: &SOp, index: Option<u64>, new_index: Option<u64>) -> Result<(), ()> {
        match op {
            SOp::Insert { bytes } => {
                let i = new_index.ok_or(())?;
                self.live.insert(i, bytes.clone());
                Ok(())
            }
            SOp::InsertAt { offset, bytes, .. } => {
                let v = index.and_then(|i| self.live.get_mut(&i)).ok_or(())?;
                let end = (*offset as usize) + bytes.len();
                if end > v.len() {
                    v.resize(end, 0);
                }
                v[*offset as usize..end].copy_from_slice(bytes);
                Ok(())
            }
            SOp::Replace { bytes, .. } => {
                let v = index.and_then(|i| self.live.get_mut(&i)).ok_or(())?;
                *v = bytes.clone();
                Ok(())
            }
            SOp::Resize { size, .. } => {
                let v = index.and_then(|i| self.live.get_mut(&i)).ok_or(())?;
                v.resize(*size as usize, 0);
                Ok(())
            }
            SOp::Move { from, to, size, .. } => {
                let v = index.and_then(|i| self.live.get_mut(&i)).ok_or(())?;
                let (from, to, size) = (*from as usize, *to as usize, *size as usize);
                if from > v.len() || from + size > v.len() {
                    return Err(());
                }
                let bytes = v[from..from + size].to_vec();
                let end = to + size;
                if end > v.len() {
                    v.resize(end, 0);
                }
                v[to..end].copy_from_slice(&bytes);
                if from < to {
                    let n = size.min(to - from);
                    v[from..from + n].fill(0);
                } else if from > to {
                    let position = (to + size).max(from);
                    v[position..from + size].fill(0);
                }
                Ok(())
            }
            SOp::Remove { .. } => {
                let i = index.ok_or(())?;
                self.live.remove(&i).map(|_| ()).ok_or(())
            }
            _ => Ok(()),
        }
    }

    /// Whether `op` on storage index `index` is a valid request in the current state.
    pub fn valid(&self, op: &SOp, index: Option<u64>) -> bool {
        match op {
            SOp::Insert { .. } | SOp::Optimize | SOp::Begin | SOp::End | SOp::Reopen | SOp::DropOpen => true,
            SOp::Move { from, size, .. } => match index.and_then(|i| self.live.get(&i)) {
                Some(v) => (*from as usize) <= v.len() && (*from + *size) as usize <= v.len(),
                None => false,
            },
            _ => index.map(|i| self.live.contains_key(&i)).unwrap_or(false),
        }
    }

    pub fn packed_len(&self) -> u64 {
        24 + self.live.values().map(|v| 16 + v.len() as u64).sum::<u64>()
    }
}
