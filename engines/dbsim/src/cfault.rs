//! C32 — a failed write never corrupts or loses later committed work.
//! Exactly one injected failure (ENOSPC / EIO) at a chosen mutating file-system call of a chosen
//! query; then further successful queries, close, reopen.

use crate::common::*;
use crate::dbexec::*;
use crate::dbmodel::Dump;
use crate::dbprog::*;
use crate::simfs::{FaultKind, SimFs};
use dbsim::with_db;
use serde::{Deserialize, Serialize};
use simcore::{Fnv, Rng};

pub const DB: &str = "/sim/db";
pub const WAL: &str = "/sim/.db";

#[derive(Clone, Debug, Serialize, Deserialize)]
pub struct Plan {
    pub variant: Variant,
    pub kind: FaultKind,
    /// successful history before the faulted query
    pub prefix: Vec<Op>,
    /// the query during which one storage call fails
    pub target: Op,
    /// queries after it (must all behave normally)
    pub suffix: Vec<Op>,
    /// fault positions (index of the mutating FS call inside the target query); empty = all
    pub positions: Vec<u64>,
    pub max_positions: u64,
}

const FILE_VARIANTS: [Variant; 4] = [Variant::File, Variant::Mapped, Variant::AnyFile, Variant::AnyMapped];

pub fn generate(seed: u64, run: u64, tier: Tier) -> Plan {
    let mut rng = Rng::derive(seed, run, 32);
    let profile = if rng.chance(1, 6) { Profile::Values } else { Profile::Small };
    let mut cfg = default_cfg(&mut rng, profile);
    cfg.invalid = false;
    cfg.steps = rng.range(4, 22);
    let mut ops = crate::dbprog::generate(&mut rng, cfg);
    let n_suffix = rng.range(3, 10).min(ops.len() as u64 - 1) as usize;
    let suffix = ops.split_off(ops.len() - n_suffix);
    let target = ops.pop().unwrap();
    Plan {
        variant: *rng.pick(&FILE_VARIANTS),
        kind: if rng.chance(2, 3) { FaultKind::NoSpace } else { FaultKind::Io },
        prefix: ops,
        target,
        suffix,
        positions: vec![],
        max_positions: match tier {
            Tier::Quick => 6,
            Tier::Thorough => 0,
        },
    }
}

fn dump_of(db: &AnyDb) -> Result<Dump, String> {
    with_db!(db, d => dump(d))
}

struct Outcome {
    class: String,
    detail: String,
}

/// One execution with the failure at mutating call `pos` of the target query (None = fault-free dry run,
/// returns the number of mutating calls of the target through `calls`).
fn one(plan: &Plan, pos: Option<u64>, calls: &mut u64, rep: &mut RunReport, known_cut: &mut bool) -> Option<Outcome> {
    let fs = SimFs::new();
    fs.install();
    let r = catch(|| -> Option<Outcome> {
        let mut db = match AnyDb::open(plan.variant, DB) {
            Ok(d) => d,
            Err(e) => return Some(Outcome { class: "HARNESS".into(), detail: format!("create failed: {}", e.description) }),
        };
        let mut sh = Shadow::default();
        for op in &plan.prefix {
            let _ = with_db!(&mut db, d => step(d, &mut sh, op));
        }
        let before = match dump_of(&db) {
            Ok(d) => d,
            Err(e) => return Some(Outcome { class: "HARNESS".into(), detail: format!("prefix unreadable: {e}") }),
        };
        let ev0 = fs.events();
        if let Some(p) = pos {
            fs.fail_event(Some((ev0 + p, plan.kind)));
        }
        let o = with_db!(&mut db, d => step(d, &mut sh, &plan.target));
        let fired = {
            let c = fs.counters();
            c.faults_nospace + c.faults_io > 0
        };
        fs.fail_event(None);
        if pos.is_none() {
            *calls = fs.events() - ev0;
            return None;
        }
        if !fired {
            return None; // position beyond what this execution issued
        }
        rep.count(if plan.kind == FaultKind::NoSpace { "fault.enospc" } else { "fault.eio" }, 1);
        let pos = pos.unwrap();
        let what = format!("{:?} at mutating FS call {pos} of {}", plan.kind, plan.target.name());
        // (a) the faulted query reports an error
        if o.ok {
            return Some(Outcome { class: "error-swallowed".into(), detail: format!("{what}: the query reported success") });
        }
        // (b) no effect
        let after = match dump_of(&db) {
            Ok(d) => d,
            Err(e) => return Some(Outcome { class: "unusable-after-failure".into(), detail: format!("{what}: afterwards {e}") }),
        };
        if after.normalised() != before.normalised() {
            let d = before.normalised().diff(&after.normalised(), "before", "after");
            return Some(Outcome { class: "effect-after-failed-write".into(), detail: format!("{what}: the failed query left an effect: {}", d.first().map(|x| x.1.clone()).unwrap_or_default()) });
        }
        for (id, kvs) in &after.values {
            sh.model.props.insert(*id, kvs.clone());
        }
        sh.model.props.retain(|_, v| !v.is_empty());
        // (c) the following queries behave normally
        let mut last = after;
        for (i, op) in plan.suffix.iter().enumerate() {
            let o = with_db!(&mut db, d => step(d, &mut sh, op));
            if let Some((_, m)) = o.mismatches.first() {
                return Some(Outcome { class: "unusable-after-failure".into(), detail: format!("{what}: later query {i} {}: {m}", op.name()) });
            }
            let d = match dump_of(&db) {
                Ok(d) => d,
                Err(e) => return Some(Outcome { class: "unusable-after-failure".into(), detail: format!("{what}: after later query {i} {}: {e}", op.name()) }),
            };
            if o.ok {
                let md = sh.model.dump();
                if md != d {
                    let df = md.diff(&d, "model", "database");
                    return Some(Outcome { class: "wrong-state-after-failure".into(), detail: format!("{what}: after later query {i} {}: {}", op.name(), df.first().map(|x| x.1.clone()).unwrap_or_default()) });
                }
                // known root cause: the storage transaction opened by the failed operation was never closed,
                // so a successful top-level query no longer clears the recovery log
                if !*known_cut && fs.file_len(WAL).unwrap_or(0) != 0 {
                    *known_cut = true;
                }
            } else {
                for (id, kvs) in &d.values {
                    sh.model.props.insert(*id, kvs.clone());
                }
                sh.model.props.retain(|_, v| !v.is_empty());
            }
            last = d;
        }
        // (d) close and reopen
        drop(db);
        let db = match AnyDb::open(plan.variant, DB) {
            Ok(d) => d,
            Err(e) => return Some(Outcome { class: "reopen-failed".into(), detail: format!("{what}: reopening failed: {}", e.description) }),
        };
        let re = match dump_of(&db) {
            Ok(d) => d,
            Err(e) => return Some(Outcome { class: "reopened-unreadable".into(), detail: format!("{what}: reopened but {e}") }),
        };
        // (e) every later successful mutation is still there
        if re.normalised() != last.normalised() {
            if *known_cut && re.normalised() == before.normalised() {
                return Some(Outcome { class: "later-commits-lost-after-failed-write".into(), detail: format!("{what}: after close and reopen every mutation that succeeded after the failed query is gone (the recovery log was never cleared again)") });
            }
            let d = last.normalised().diff(&re.normalised(), "before close", "reopened");
            return Some(Outcome { class: "reopened-state-differs".into(), detail: format!("{what}: {}", d.first().map(|x| x.1.clone()).unwrap_or_default()) });
        }
        None
    });
    SimFs::uninstall();
    rep.log_hash ^= fs.hash().rotate_left((pos.unwrap_or(63) % 64) as u32);
    match r {
        Caught::Ok(o) => o,
        Caught::Panic(p) => Some(Outcome { class: panic_class(&p), detail: p }),
        Caught::Budget => None,
    }
}

pub fn exec(plan: &Plan, trials: &mut Trials) -> RunReport {
    let mut rep = RunReport::default();
    let mut ph = Fnv::new();
    ph.str(&serde_json::to_string(plan).unwrap());
    rep.prog_hash = ph.get();
    let mut calls = 0u64;
    let mut cut = false;
    if let Some(o) = one(plan, None, &mut calls, &mut rep, &mut cut) {
        if o.class == "HARNESS" {
            rep.viols.push(Viol { property: "HARNESS".into(), class: "dry-run".into(), detail: o.detail, trial: 0 });
        }
        // a panic in the fault-free dry run is not this check's business
        return rep;
    }
    let positions: Vec<u64> = if !plan.positions.is_empty() {
        plan.positions.clone()
    } else if plan.max_positions != 0 && calls > plan.max_positions {
        (0..plan.max_positions).map(|i| i * calls / plan.max_positions).collect()
    } else {
        (0..calls).collect()
    };
    rep.count("target_mutating_calls", calls);
    let mut cuts = 0u64;
    for p in positions {
        let Some(trial) = trials.begin() else { continue };
        rep.evals += 1;
        if p > 0 {
            rep.nontrivial += 1;
        }
        let mut cut = false;
        let o = one(plan, Some(p), &mut calls, &mut rep, &mut cut);
        if cut {
            cuts += 1;
        }
        if let Some(o) = o {
            let property = if o.class == "HARNESS" { "HARNESS" } else { "C32" };
            rep.viols.push(Viol { property: property.into(), class: o.class, detail: o.detail, trial });
        }
    }
    rep.count("entered_known_defect_territory", cuts);
    if cuts > 0 {
        rep.known_cut = Some("storage transaction left open by the failed operation".into());
    }
    rep
}
