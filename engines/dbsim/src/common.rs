//! dbsim's view of the shared harness types, plus the agdb-specific probe collection.

pub use simcore::harness::*;

pub trait Probes {
    /// Drains agdb's cfg(agdb_verif) branch probes of this thread into the run's counters.
    fn probes(&mut self);
}

impl Probes for RunReport {
    fn probes(&mut self) {
        let items: Vec<(String, u64)> = agdb::verif::take_probes().into_iter().map(|(k, v)| (k.to_string(), v)).collect();
        self.add_prefixed("probe.", items);
    }
}
