//! C02 / C03 — crash at every mutating file-system call of sampled query histories.
//! C02: every snapshot reopens with every file-backed constructor and is fully readable.
//! C03: the reopened state equals the state before or after the interrupted query / transaction.

use crate::common::*;
use crate::dbexec::*;
use crate::dbmodel::Dump;
use crate::dbprog::*;
use crate::simfs::{self, EvOp, Image, SimFs};
use dbsim::with_db;
use serde::{Deserialize, Serialize};
use simcore::{Fnv, Rng};

pub const DB: &str = "/sim/db";
pub const WAL: &str = "/sim/.db";
pub const DB2: &str = "/sim/db2";
pub const WAL2: &str = "/sim/.db2";

#[derive(Clone, Debug, Serialize, Deserialize)]
pub struct Plan {
    pub focus: String,
    pub variant: Variant,
    pub noise: [u64; 3],
    pub torn: bool,
    /// crash points evaluated per program (0 = all)
    pub max_points: u64,
    /// how many file-backed constructors each snapshot is opened with (1..=4)
    pub open_with: u64,
    /// also crash inside the closing defragmentation
    pub close: bool,
    /// the database is renamed (to `DB2`) right before this step; crash points inside the rename itself are
    /// not evaluated (the properties speak of queries and transactions), everything after it is
    #[serde(default)]
    pub rename_before: Option<u64>,
    /// after a clean close: the file is put back into the format without a storage version record (what older
    /// releases wrote), reopened - which upgrades it in place - and crash points inside that upgrade are evaluated
    #[serde(default)]
    pub legacy_reopen: bool,
    pub steps: Vec<Op>,
}

const FILE_VARIANTS: [Variant; 4] = [Variant::File, Variant::Mapped, Variant::AnyFile, Variant::AnyMapped];

pub fn generate(focus: &str, seed: u64, run: u64, tier: Tier) -> Plan {
    let mut rng = Rng::derive(seed, run, 23);
    let profile = match rng.below(10) {
        0 => Profile::Wide,
        1 => Profile::Churn,
        2 => Profile::Values,
        _ => Profile::Small,
    };
    let mut cfg = default_cfg(&mut rng, profile);
    cfg.steps = match profile {
        Profile::Small | Profile::Values => rng.range(1, 8),
        _ => rng.range(70, 140),
    };
    cfg.txn = true;
    cfg.w[14] = cfg.w[14] * 2 + 6;
    let steps = crate::dbprog::generate(&mut rng, cfg);
    let noise_on = rng.chance(1, 5);
    Plan {
        focus: focus.to_string(),
        variant: *rng.pick(&FILE_VARIANTS),
        noise: if noise_on { [rng.range(2, 9), 0, rng.range(2, 7)] } else { [0, 0, 0] },
        torn: rng.chance(1, 3),
        max_points: match (tier, profile) {
            (Tier::Quick, Profile::Small | Profile::Values) => 250,
            (Tier::Quick, _) => 120,
            (Tier::Thorough, Profile::Small | Profile::Values) => 0,
            (Tier::Thorough, _) => 1500,
        },
        open_with: match tier {
            Tier::Quick => 2,
            Tier::Thorough => 4,
        },
        close: rng.chance(2, 3),
        rename_before: if rng.chance(1, 6) { Some(rng.below(steps.len() as u64 + 1)) } else { None },
        legacy_reopen: rng.chance(1, 5),
        steps,
    }
}

struct Span {
    start: usize,
    end: usize,
    pre: usize,
    post: usize,
    what: String,
}

fn open_and_dump(img: &Image, v: Variant, name: &str) -> Result<Dump, (String, String)> {
    let fs = SimFs::from_image(img.clone());
    fs.install();
    let r = catch(|| -> Result<Dump, (String, String)> {
        let db = AnyDb::open(v, name).map_err(|e| ("open-failed".to_string(), format!("opening as {v:?} failed: {}", describe(&e))))?;
        let d = with_db!(&db, d => dump(d)).map_err(|e| ("read-failed".to_string(), format!("opened as {v:?} but {e}")))?;
        Ok(d)
    });
    SimFs::uninstall();
    match r {
        Caught::Ok(r) => r,
        Caught::Panic(p) => Err((panic_class(&p), format!("panic while opening/reading as {v:?}: {p}"))),
        Caught::Budget => Err(("budget".into(), "step budget exceeded".into())),
    }
}

fn describe(e: &agdb::DbError) -> String {
    let mut s = e.description.clone();
    let mut c = &e.cause;
    while let Some(inner) = c {
        s += " <- ";
        s += &inner.description;
        c = &inner.cause;
    }
    s
}

pub fn exec(plan: &Plan, trials: &mut Trials) -> RunReport {
    let mut rep = RunReport::default();
    let mut ph = Fnv::new();
    ph.str(&serde_json::to_string(plan).unwrap());
    rep.prog_hash = ph.get();
    let focus = plan.focus.as_str();

    // ---- live execution
    let fs = SimFs::new();
    fs.noise(plan.noise[0], plan.noise[1], plan.noise[2]);
    fs.install();
    let mut dumps: Vec<Dump> = vec![];
    let mut spans: Vec<Span> = vec![];
    let mut creation = Image::new();
    let mut renamed: Option<(usize, usize)> = None;
    let live = catch(|| -> Result<(usize, Vec<simfs::Event>), String> {
        let mut db = AnyDb::open(plan.variant, DB).map_err(|e| format!("create failed: {}", e.description))?;
        creation = fs.image();
        fs.record(true);
        let e0 = 0usize;
        let mut sh = Shadow::default();
        dumps.push(with_db!(&db, d => dump(d))?);
        for (i, op) in plan.steps.iter().enumerate() {
            if plan.rename_before == Some(i as u64) {
                let a = fs.journal_len();
                with_db!(&mut db, d => d.rename(DB2)).map_err(|e| format!("rename failed: {}", e.description))?;
                renamed = Some((a, fs.journal_len()));
            }
            let start = fs.journal_len();
            let _ = with_db!(&mut db, d => step(d, &mut sh, op));
            let end = fs.journal_len();
            dumps.push(with_db!(&db, d => dump(d))?);
            spans.push(Span { start, end, pre: dumps.len() - 2, post: dumps.len() - 1, what: format!("step {i} {}", op.name()) });
        }
        if plan.close {
            let start = fs.journal_len();
            drop(db);
            let end = fs.journal_len();
            let last = dumps.len() - 1;
            spans.push(Span { start, end, pre: last, post: last, what: "closing defragmentation".into() });
        } else {
            std::mem::forget(db);
        }
        let j = fs.take_journal();
        fs.record(false);
        Ok((e0, j))
    });
    let base = fs.image();
    SimFs::uninstall();
    rep.log_hash = fs.hash();
    let c = fs.counters();
    rep.count("fs.writes", c.writes);
    rep.count("fs.set_lens", c.set_lens);
    rep.count("fault.short_write", c.faults_short_write);
    rep.count("fault.short_read", c.faults_short_read);
    rep.probes();
    if renamed.is_some() {
        rep.count("history.renamed_database", 1);
    }
    let (_e0, journal) = match live {
        Caught::Ok(Ok(x)) => x,
        Caught::Ok(Err(e)) => {
            rep.viols.push(Viol { property: "HARNESS".into(), class: "live-error".into(), detail: e, trial: 0 });
            return rep;
        }
        Caught::Panic(p) => {
            // a panic of the live database is not this check's business (C08-C13 report it); stop quietly
            rep.count("live_panic", 1);
            let _ = p;
            return rep;
        }
        Caught::Budget => return rep,
    };
    let closed_image = base;

    // ---- crash points: replay the journal over the image taken right after creation
    let total = journal.len();
    let stride = if plan.max_points != 0 && (total as u64) > plan.max_points { (total as u64).div_ceil(plan.max_points) as usize } else { 1 };
    let mut img = creation;
    let mut si = 0usize;
    let others: Vec<Variant> = {
        let mut v = vec![plan.variant];
        for o in FILE_VARIANTS {
            if o != plan.variant && (v.len() as u64) < plan.open_with {
                v.push(o);
            }
        }
        v
    };
    let mut first_viol = false;
    for k in 0..=total {
        if k > 0 {
            simfs::apply_event(&mut img, &journal[k - 1]);
        }
        while si < spans.len() && spans[si].end <= k && !(spans[si].start == spans[si].end && spans[si].end == k) {
            si += 1;
        }
        if stride > 1 && k % stride != 0 && k != total {
            continue;
        }
        let (name, wal_name) = match renamed {
            Some((a, b)) if k > a && k < b => continue,
            Some((_, b)) if k >= b => (DB2, WAL2),
            _ => (DB, WAL),
        };
        // the span this crash point lies in (strictly inside) or the boundary state
        let (pre, post, what) = match spans.get(si) {
            Some(s) if s.start < k && k < s.end => (s.pre, s.post, format!("inside {}", s.what)),
            Some(s) if k <= s.start => (s.pre, s.pre, format!("before {}", s.what)),
            Some(s) => (s.post, s.post, format!("after {}", s.what)),
            None => (dumps.len() - 1, dumps.len() - 1, "after the last step".to_string()),
        };
        let mut variants: Vec<(Image, String)> = vec![(img.clone(), format!("crash after FS event {k}/{total} ({what})"))];
        let mut torn_pre_post = (pre, post);
        if plan.torn
            && k < total
            && let EvOp::Write { data, .. } = &journal[k].op
            && data.len() > 1
        {
            let cut = data.len() / 2;
            let mut t = img.clone();
            simfs::apply_torn(&mut t, &journal[k], cut);
            // a torn call belongs to the span that issued it
            if let Some(s) = spans.iter().find(|s| s.start <= k && k < s.end) {
                torn_pre_post = (s.pre, s.post);
            }
            variants.push((t, format!("crash after FS event {k}/{total} + {cut}/{} bytes of the next {} write", data.len(), if journal[k].path == wal_name { "log" } else { "data" })));
            rep.count(if journal[k].path == wal_name { "fault.torn_log_write" } else { "fault.torn_data_write" }, 1);
        }
        for (vi, (snap, desc)) in variants.iter().enumerate() {
            let (pre, post) = if vi == 0 { (pre, post) } else { torn_pre_post };
            let wal_live = snap.get(wal_name).map(|w| !w.is_empty()).unwrap_or(false);
            for v in &others {
                let Some(trial) = trials.begin() else { continue };
                rep.evals += 1;
                rep.count("fault.crash", 1);
                if wal_live {
                    rep.nontrivial += 1;
                }
                match open_and_dump(snap, *v, name) {
                    Ok(d) => {
                        if d != dumps[pre] && d != dumps[post] && focus == "C03" && !first_viol {
                            let dd = dumps[pre].diff(&d, "state before", "reopened");
                            let detail = dd.first().map(|(_, m)| m.clone()).unwrap_or_default();
                            let dd2 = dumps[post].diff(&d, "state after", "reopened");
                            let detail2 = dd2.first().map(|(_, m)| m.clone()).unwrap_or_default();
                            rep.viols.push(Viol { property: "C03".into(), class: "partial-effect-visible".into(), detail: format!("{desc}, reopened as {v:?}: neither the state before nor after. vs before: {}; vs after: {}", clip(&detail), clip(&detail2)), trial });
                            first_viol = true;
                        }
                    }
                    Err((class, detail)) => {
                        if focus == "C02" && !first_viol {
                            rep.viols.push(Viol { property: "C02".into(), class, detail: format!("{desc}: {detail}"), trial });
                            first_viol = true;
                        }
                    }
                }
            }
        }
    }

    // ---- the upgrade of a file without a storage version record, interrupted at every mutating call
    if plan.legacy_reopen && plan.close && !first_viol {
        let name = if renamed.is_some() { DB2 } else { DB };
        let wal_name = if renamed.is_some() { WAL2 } else { WAL };
        let expected = dumps.last().cloned();
        let mut legacy: Image = Image::new();
        if let (Some(data), Some(expected)) = (closed_image.get(name), expected) {
            // the version record is the first record of the file: index 0, size 8
            if data.len() >= 24 && data[0..8] == 0u64.to_le_bytes() && data[8..16] == 8u64.to_le_bytes() {
                legacy.insert(name.to_string(), data[24..].to_vec());
                let fs = SimFs::from_image(legacy.clone());
                fs.install();
                fs.record(true);
                let opened = catch(|| AnyDb::open(plan.variant, name).map(std::mem::forget).map_err(|e| describe(&e)));
                let journal = fs.take_journal();
                SimFs::uninstall();
                match opened {
                    Caught::Ok(Ok(())) => {
                        rep.count("history.legacy_format_upgrade", 1);
                        let mut img = legacy;
                        for k in 0..=journal.len() {
                            if k > 0 {
                                simfs::apply_event(&mut img, &journal[k - 1]);
                            }
                            let mut snaps = vec![(img.clone(), format!("crash after FS event {k}/{} of the format upgrade at open", journal.len()))];
                            if plan.torn
                                && k < journal.len()
                                && let EvOp::Write { data, .. } = &journal[k].op
                                && data.len() > 1
                            {
                                let mut t = img.clone();
                                simfs::apply_torn(&mut t, &journal[k], data.len() / 2);
                                snaps.push((t, format!("crash after FS event {k}/{} of the format upgrade at open + half of the next {} write", journal.len(), if journal[k].path == wal_name { "log" } else { "data" })));
                            }
                            for (snap, desc) in snaps {
                                for v in &others {
                                    let Some(trial) = trials.begin() else { continue };
                                    rep.evals += 1;
                                    rep.count("fault.crash_inside_format_upgrade", 1);
                                    match open_and_dump(&snap, *v, name) {
                                        Ok(d) => {
                                            if d != expected && focus == "C03" && !first_viol {
                                                let dd = expected.diff(&d, "state before the upgrade", "reopened");
                                                rep.viols.push(Viol { property: "C03".into(), class: "partial-effect-visible".into(), detail: format!("{desc}, reopened as {v:?}: {}", clip(&dd.first().map(|(_, m)| m.clone()).unwrap_or_default())), trial });
                                                first_viol = true;
                                            }
                                        }
                                        Err((class, detail)) => {
                                            if focus == "C02" && !first_viol {
                                                rep.viols.push(Viol { property: "C02".into(), class, detail: format!("{desc}: {detail}"), trial });
                                                first_viol = true;
                                            }
                                        }
                                    }
                                }
                            }
                        }
                    }
                    Caught::Ok(Err(e)) => rep.viols.push(Viol { property: "HARNESS".into(), class: "legacy-image".into(), detail: format!("a file without the version record did not open: {e}"), trial: 0 }),
                    _ => {}
                }
            }
        }
    }
    rep
}

fn clip(s: &str) -> String {
    if s.len() > 300 { format!("{}...", s.chars().take(300).collect::<String>()) } else { s.to_string() }
}

