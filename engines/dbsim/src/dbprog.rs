//! Database-level histories: a small operation language over agdb's public
//! query structs (so plans are JSON without NaN problems and shrink well).

use serde::{Deserialize, Serialize};
use simcore::Rng;

#[derive(Clone, Debug, Serialize, Deserialize, PartialEq, Eq, PartialOrd, Ord)]
pub enum Val {
    Bytes(Vec<u8>),
    I64(i64),
    U64(u64),
    /// f64 by bit pattern (JSON cannot carry NaN payloads)
    F64(u64),
    Str(String),
    VI64(Vec<i64>),
    VU64(Vec<u64>),
    VF64(Vec<u64>),
    VStr(Vec<String>),
}

pub type Kv = (Val, Val);

/// Reference to an element: by creation slot (k-th id this history obtained), raw id, or alias.
#[derive(Clone, Debug, Serialize, Deserialize, PartialEq)]
pub enum Ref {
    Slot(u64),
    Raw(i64),
    Alias(String),
}

#[derive(Clone, Debug, Serialize, Deserialize, PartialEq)]
pub enum Values {
    Single(Vec<Kv>),
    Multi(Vec<Vec<Kv>>),
}

#[derive(Clone, Copy, Debug, Serialize, Deserialize, PartialEq)]
pub enum Kind {
    All,
    Nodes,
    Edges,
}

/// Target selection by a search sub-query (targets are taken from the database's own result).
#[derive(Clone, Debug, Serialize, Deserialize, PartialEq)]
pub enum Search {
    Elements { kind: Kind, limit: u64, offset: u64 },
    From(Ref),
    To(Ref),
    Index { key: Val, value: Val },
}

#[derive(Clone, Debug, Serialize, Deserialize, PartialEq)]
pub enum Op {
    InsertNodes { count: u64, aliases: Vec<String>, values: Values },
    InsertNodesIds { ids: Vec<Ref>, aliases: Vec<String>, values: Values },
    InsertEdges { from: Vec<Ref>, to: Vec<Ref>, each: bool, values: Values },
    InsertEdgesIds { ids: Vec<Ref>, values: Values },
    InsertValues { ids: Vec<Ref>, values: Values },
    InsertValuesSearch { search: Search, values: Vec<Kv> },
    InsertAliases { ids: Vec<Ref>, aliases: Vec<String> },
    RemoveAliases { aliases: Vec<String> },
    InsertIndex { key: Val },
    RemoveIndex { key: Val },
    Remove { ids: Vec<Ref> },
    RemoveSearch { search: Search },
    RemoveValues { ids: Vec<Ref>, keys: Vec<Val> },
    RemoveValuesSearch { search: Search, keys: Vec<Val> },
    /// explicit mutable transaction; the closure returns an error after `fail_after` queries (None = commits)
    Txn { ops: Vec<Op>, fail_after: Option<u64> },
}

impl Op {
    pub fn name(&self) -> &'static str {
        match self {
            Op::InsertNodes { .. } => "InsertNodes",
            Op::InsertNodesIds { .. } => "InsertNodesIds",
            Op::InsertEdges { .. } => "InsertEdges",
            Op::InsertEdgesIds { .. } => "InsertEdgesIds",
            Op::InsertValues { .. } => "InsertValues",
            Op::InsertValuesSearch { .. } => "InsertValuesSearch",
            Op::InsertAliases { .. } => "InsertAliases",
            Op::RemoveAliases { .. } => "RemoveAliases",
            Op::InsertIndex { .. } => "InsertIndex",
            Op::RemoveIndex { .. } => "RemoveIndex",
            Op::Remove { .. } => "Remove",
            Op::RemoveSearch { .. } => "RemoveSearch",
            Op::RemoveValues { .. } => "RemoveValues",
            Op::RemoveValuesSearch { .. } => "RemoveValuesSearch",
            Op::Txn { .. } => "Txn",
        }
    }
}

// ---------------------------------------------------------------- generator

#[derive(Clone, Copy, Debug, Serialize, Deserialize, PartialEq)]
pub enum Profile {
    /// few elements, few steps (most crash bugs need <= 3 operations)
    Small,
    /// many insert/remove cycles over aliases and indexed values (tombstones, 64-slot table thresholds)
    Churn,
    /// 100+ aliases / index entries to force rehash up and down
    Wide,
    /// few elements, many keys and exotic values
    Values,
}

#[derive(Clone, Debug)]
pub struct GenCfg {
    pub profile: Profile,
    pub steps: u64,
    /// per-op-class weights (index = class)
    pub w: [u64; 16],
    pub txn: bool,
    pub invalid: bool,
    pub exotic_values: bool,
    /// swarm knobs for sizes: a run with `big_values` sometimes stores values of 4-9 KiB (some of them all
    /// zero bytes); a run with `many_keys` draws keys from a pool of 300 and writes up to 200 at once, so
    /// one element's key-value vector grows by more than a page in one step
    pub big_values: bool,
    pub many_keys: bool,
}

pub const KEYS: [&str; 8] = ["k", "name", "age", "tag", "x", "y", "data", "a-rather-long-key-name"];

pub struct Gen<'a> {
    pub rng: &'a mut Rng,
    pub cfg: GenCfg,
    /// expected number of element slots created so far (approximate shadow)
    pub slots: u64,
    pub alias_pool: Vec<String>,
    pub uniq: u64,
}

impl<'a> Gen<'a> {
    pub fn new(rng: &'a mut Rng, cfg: GenCfg) -> Self {
        let pool_n = match cfg.profile {
            Profile::Small | Profile::Values => 4,
            Profile::Churn => 90,
            Profile::Wide => 160,
        };
        let alias_pool = (0..pool_n).map(|i| format!("al{i}")).collect();
        Gen { rng, cfg, slots: 0, alias_pool, uniq: 0 }
    }

    pub fn val(&mut self) -> Val {
        let r = &mut *self.rng;
        if !self.cfg.exotic_values {
            return match r.below(4) {
                0 => Val::I64(r.range(0, 5) as i64),
                1 => Val::Str(format!("s{}", r.below(6))),
                2 => Val::U64(r.below(4)),
                _ => {
                    self.uniq += 1;
                    Val::I64(1000 + self.uniq as i64)
                }
            };
        }
        let big = self.cfg.big_values;
        let len = |r: &mut Rng| -> usize {
            if big && r.chance(1, 6) {
                return r.range(4090, 9000) as usize;
            }
            match r.below(8) {
                0 => 0,
                1 => 14,
                2 => 15,
                3 => 16,
                4 => 17,
                _ => r.below(41) as usize,
            }
        };
        match r.below(9) {
            0 => {
                let n = len(r);
                if r.chance(1, 4) { Val::Bytes(vec![0u8; n]) } else { Val::Bytes(r.bytes(n)) }
            }
            1 => Val::I64(*r.pick(&[0, 1, -1, i64::MIN, i64::MAX, 42, -7, 1 << 40])),
            2 => Val::U64(*r.pick(&[0, 1, u64::MAX, 1 << 63, 7, 0xFFFF_FFFF])),
            3 => Val::F64(float_bits(r)),
            4 => {
                let n = len(r);
                Val::Str(string(r, n))
            }
            5 => Val::VI64((0..r.below(5)).map(|_| *r.pick(&[0, -1, i64::MIN, i64::MAX, 3])).collect()),
            6 => Val::VU64((0..r.below(5)).map(|_| *r.pick(&[0, 1, u64::MAX, 9])).collect()),
            7 => Val::VF64((0..r.below(4)).map(|_| float_bits(r)).collect()),
            _ => Val::VStr((0..r.below(4)).map(|_| { let n = len(r) / 2; string(r, n) }).collect()),
        }
    }

    pub fn key(&mut self) -> Val {
        if self.cfg.many_keys {
            return Val::Str(format!("key{}", self.rng.below(300)));
        }
        if self.cfg.exotic_values && self.rng.chance(1, 3) {
            return self.val();
        }
        let n = match self.cfg.profile {
            Profile::Small => 4,
            _ => KEYS.len(),
        };
        Val::Str(KEYS[self.rng.below(n as u64) as usize].to_string())
    }

    /// key-value list with distinct keys
    pub fn kvs(&mut self, max: u64) -> Vec<Kv> {
        let max = if self.cfg.many_keys && self.rng.chance(1, 4) { 200 } else { max };
        let n = self.rng.below(max + 1);
        let mut out: Vec<Kv> = vec![];
        for _ in 0..n {
            let k = self.key();
            if out.iter().any(|(kk, _)| *kk == k) {
                continue;
            }
            let v = self.val();
            out.push((k, v));
        }
        out
    }

    pub fn alias(&mut self) -> String {
        self.rng.pick(&self.alias_pool).clone()
    }

    pub fn eref(&mut self) -> Ref {
        let r = &mut *self.rng;
        if self.slots == 0 || r.chance(1, 25) {
            return Ref::Raw(*r.pick(&[0, 1, 2, -1, -2, 999, -999]));
        }
        if r.chance(1, 6) {
            return Ref::Alias(self.alias());
        }
        // bias to recent slots
        let s = if r.chance(1, 2) { self.slots - 1 - r.below(self.slots.min(4)) } else { r.below(self.slots) };
        Ref::Slot(s)
    }

    pub fn erefs(&mut self, max: u64) -> Vec<Ref> {
        let n = self.rng.range(1, max.max(1));
        (0..n).map(|_| self.eref()).collect()
    }

    pub fn search(&mut self) -> Search {
        let r = &mut *self.rng;
        match r.below(6) {
            0 | 1 => Search::Elements { kind: *r.pick(&[Kind::All, Kind::Nodes, Kind::Edges]), limit: if r.chance(1, 2) { r.range(1, 4) } else { 0 }, offset: if r.chance(1, 3) { r.range(1, 3) } else { 0 } },
            2 => Search::From(self.eref()),
            3 => Search::To(self.eref()),
            _ => {
                let key = self.key();
                let value = self.val();
                Search::Index { key, value }
            }
        }
    }

    pub fn values(&mut self, n_hint: u64) -> Values {
        match self.rng.below(4) {
            0 => Values::Single(vec![]),
            1 | 2 => Values::Single(self.kvs(3)),
            _ => {
                // usually the right length, sometimes off by one (must fail without effect)
                let n = if self.cfg.invalid && self.rng.chance(1, 8) { n_hint + 1 } else { n_hint };
                Values::Multi((0..n).map(|_| self.kvs(3)).collect())
            }
        }
    }

    pub fn op(&mut self, allow_txn: bool) -> Op {
        let w = self.cfg.w;
        let mut w2 = w;
        if !allow_txn || !self.cfg.txn {
            w2[14] = 0;
        }
        match self.rng.weighted(&w2) {
            0 => {
                let count = self.rng.range(0, 3);
                let n_alias = if self.rng.chance(1, 2) { self.rng.range(0, 2) } else { 0 };
                let mut aliases: Vec<String> = (0..n_alias).map(|_| self.alias()).collect();
                if self.cfg.invalid && self.rng.chance(1, 30) {
                    aliases.push(String::new());
                }
                let n = count.max(aliases.len() as u64);
                let values = self.values(n);
                self.slots += match &values {
                    Values::Multi(v) => v.len() as u64,
                    _ => n,
                };
                Op::InsertNodes { count, aliases, values }
            }
            1 => {
                let ids = self.erefs(2);
                let aliases = if self.rng.chance(1, 3) { vec![self.alias()] } else { vec![] };
                let values = self.values(ids.len() as u64);
                self.slots += ids.len() as u64;
                Op::InsertNodesIds { ids, aliases, values }
            }
            2 => {
                let from = self.erefs(2);
                let to = self.erefs(2);
                let each = self.rng.chance(1, 3);
                let n = if each || from.len() != to.len() { from.len() * to.len() } else { from.len() } as u64;
                let values = self.values(n);
                self.slots += n;
                Op::InsertEdges { from, to, each, values }
            }
            3 => {
                let ids = self.erefs(2);
                let values = self.values(ids.len() as u64);
                self.slots += ids.len() as u64;
                Op::InsertEdgesIds { ids, values }
            }
            4 => {
                let mut ids = self.erefs(3);
                if self.rng.chance(1, 10) {
                    ids.push(Ref::Raw(0));
                }
                let values = match self.rng.below(3) {
                    0 => Values::Multi((0..ids.len()).map(|_| self.kvs(3)).collect()),
                    _ => Values::Single(self.kvs(4)),
                };
                self.slots += ids.len() as u64;
                Op::InsertValues { ids, values }
            }
            5 => Op::InsertValuesSearch { search: self.search(), values: self.kvs(2) },
            6 => {
                let ids = self.erefs(2);
                let mut aliases: Vec<String> = ids.iter().map(|_| self.alias()).collect();
                if self.cfg.invalid && self.rng.chance(1, 12) {
                    aliases[0] = String::new();
                }
                if self.cfg.invalid && self.rng.chance(1, 15) {
                    aliases.pop();
                }
                Op::InsertAliases { ids, aliases }
            }
            7 => Op::RemoveAliases { aliases: (0..self.rng.range(1, 2)).map(|_| self.alias()).collect() },
            8 => Op::InsertIndex { key: self.key() },
            9 => Op::RemoveIndex { key: self.key() },
            10 => Op::Remove { ids: self.erefs(2) },
            11 => Op::RemoveSearch { search: self.search() },
            12 => {
                let ids = self.erefs(2);
                let keys = (0..self.rng.range(1, 2)).map(|_| self.key()).collect();
                Op::RemoveValues { ids, keys }
            }
            13 => {
                let keys = (0..self.rng.range(1, 2)).map(|_| self.key()).collect();
                Op::RemoveValuesSearch { search: self.search(), keys }
            }
            14 => {
                let n = self.rng.range(1, 6);
                let ops: Vec<Op> = (0..n).map(|_| self.op(false)).collect();
                let fail_after = if self.rng.chance(2, 5) { Some(self.rng.range(0, n)) } else { None };
                Op::Txn { ops, fail_after }
            }
            _ => {
                // churn step: re-alias one node / rewrite one indexed value with a fresh value
                if self.rng.chance(1, 2) {
                    self.uniq += 1;
                    Op::InsertAliases { ids: vec![self.eref()], aliases: vec![format!("u{}", self.uniq)] }
                } else {
                    self.uniq += 1;
                    let key = Val::Str(KEYS[self.rng.below(3) as usize].to_string());
                    Op::InsertValues { ids: vec![self.eref()], values: Values::Single(vec![(key, Val::I64(100_000 + self.uniq as i64))]) }
                }
            }
        }
    }
}

fn float_bits(r: &mut Rng) -> u64 {
    match r.below(8) {
        0 => 0,                          // +0
        1 => 1 << 63,                    // -0
        2 => 0x7FF8_0000_0000_0000,      // quiet NaN
        3 => 0x7FF8_0000_0000_0001 | (r.next() & 0x0007_FFFF_FFFF_FFFF), // NaN payload
        4 => 0xFFF0_0000_0000_0000,      // -inf
        5 => 0x7FF0_0000_0000_0001,      // signalling NaN
        6 => f64::to_bits(1.5),
        _ => r.next(),
    }
}

fn string(r: &mut Rng, n: usize) -> String {
    const ALPHA: [&str; 12] = ["a", "b", "Z", "0", " ", "é", "ß", "λ", "中", "🦀", "\u{0}", "\""];
    let mut s = String::new();
    while s.len() < n {
        let c = *r.pick(&ALPHA);
        if s.len() + c.len() > n {
            s.push('x');
        } else {
            s.push_str(c);
        }
    }
    s
}

pub fn default_cfg(rng: &mut Rng, profile: Profile) -> GenCfg {
    // classes: 0 InsertNodes 1 InsertNodesIds 2 InsertEdges 3 InsertEdgesIds 4 InsertValues 5 InsertValuesSearch
    // 6 InsertAliases 7 RemoveAliases 8 InsertIndex 9 RemoveIndex 10 Remove 11 RemoveSearch 12 RemoveValues
    // 13 RemoveValuesSearch 14 Txn 15 churn
    let mut w: [u64; 16] = match profile {
        Profile::Small => [20, 5, 14, 4, 12, 3, 8, 4, 5, 2, 10, 3, 6, 2, 8, 0],
        Profile::Churn => [6, 2, 4, 1, 6, 1, 10, 8, 3, 1, 6, 1, 4, 1, 2, 40],
        Profile::Wide => [30, 2, 6, 1, 10, 2, 12, 10, 3, 2, 14, 3, 4, 1, 3, 10],
        Profile::Values => [8, 6, 4, 4, 30, 6, 2, 1, 6, 2, 3, 1, 14, 4, 6, 0],
    };
    // swarm: switch off a random subset of classes for this run
    for i in 0..w.len() {
        if i != 0 && rng.chance(1, 6) {
            w[i] = 0;
        }
    }
    GenCfg {
        profile,
        steps: match profile {
            Profile::Small => rng.range(3, 15),
            Profile::Churn => rng.range(150, 600),
            Profile::Wide => rng.range(100, 300),
            Profile::Values => rng.range(5, 40),
        },
        w,
        txn: rng.chance(3, 4),
        invalid: rng.chance(2, 3),
        exotic_values: profile == Profile::Values || rng.chance(1, 3),
        big_values: rng.chance(1, 6),
        many_keys: rng.chance(1, 10),
    }
}

pub fn generate(rng: &mut Rng, cfg: GenCfg) -> Vec<Op> {
    let steps = cfg.steps;
    let mut g = Gen::new(rng, cfg);
    // always start with something to work on
    let mut ops = vec![];
    if g.rng.chance(4, 5) {
        let n = g.rng.range(1, 3);
        g.slots += n;
        let aliases = if g.rng.chance(1, 2) { vec![g.alias()] } else { vec![] };
        ops.push(Op::InsertNodes { count: n, aliases, values: Values::Single(g.kvs(2)) });
    }
    while (ops.len() as u64) < steps {
        ops.push(g.op(true));
    }
    ops
}
