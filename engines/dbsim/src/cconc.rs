//! C23 — concurrent reads see the same results as sequential reads (engine E4).
//! Reader threads run under shuttle's scheduler; the simulated file system yields to the
//! scheduler inside every open / seek / read, which is where an interleaving can matter
//! (shared cursor of the storage's file handle, try_lock + fresh-handle fallback).

use crate::common::*;
use crate::dbexec::*;
use crate::dbprog::*;
use crate::simfs::SimFs;
use agdb::*;
use serde::{Deserialize, Serialize};
use simcore::{Fnv, Rng};
use std::sync::Arc;
use std::sync::atomic::{AtomicU64, Ordering};

pub const DB: &str = "/sim/db";

#[derive(Clone, Debug, Serialize, Deserialize, PartialEq)]
pub enum ReadQ {
    Values { id: Ref, keys: Vec<Val> },
    Keys { id: Ref },
    KeyCount { id: Ref },
    Aliases { id: Ref },
    AllAliases,
    Indexes,
    NodeCount,
    EdgeCount { id: Ref },
    Elements { kind: Kind, limit: u64, offset: u64 },
    Walk { dfs: bool, from: Ref },
    Index { key: Val, value: Val },
    /// read transaction of several queries
    Txn(Vec<ReadQ>),
}

#[derive(Clone, Debug, Serialize, Deserialize)]
pub struct Plan {
    pub any_variant: bool,
    pub history: Vec<Op>,
    pub reads: Vec<ReadQ>,
    /// per thread: indices into `reads`
    pub threads: Vec<Vec<u64>>,
    /// 0 = random scheduler, n = PCT with depth n
    pub pct_depth: u64,
    pub sched_seed: u64,
    pub iterations: u64,
    /// set in replay files: the exact shuttle schedule that failed
    #[serde(default)]
    pub schedule: Option<String>,
}

pub fn generate(seed: u64, run: u64, tier: Tier) -> Plan {
    let mut rng = Rng::derive(seed, run, 23);
    let profile = if rng.chance(1, 5) { Profile::Values } else { Profile::Small };
    let mut cfg = default_cfg(&mut rng, profile);
    cfg.invalid = false;
    cfg.steps = rng.range(4, 16);
    cfg.w[8] += 6;
    let history = crate::dbprog::generate(&mut rng, cfg.clone());
    let mut g = Gen::new(&mut rng, cfg);
    g.slots = 8;
    let n_reads = g.rng.range(3, 8);
    let mut reads = vec![];
    for _ in 0..n_reads {
        reads.push(gen_read(&mut g, true));
    }
    let n_threads = g.rng.range(2, 4);
    let threads: Vec<Vec<u64>> = (0..n_threads).map(|_| (0..g.rng.range(1, 4)).map(|_| g.rng.below(n_reads)).collect()).collect();
    Plan {
        any_variant: g.rng.chance(1, 3),
        history,
        reads,
        threads,
        pct_depth: if g.rng.chance(1, 2) { 0 } else { g.rng.range(2, 3) },
        sched_seed: g.rng.next(),
        iterations: match tier {
            Tier::Quick => 40,
            Tier::Thorough => 400,
        },
        schedule: None,
    }
}

fn gen_read(g: &mut Gen, allow_txn: bool) -> ReadQ {
    match g.rng.below(if allow_txn { 13 } else { 12 }) {
        0 | 1 | 2 => ReadQ::Values { id: g.eref(), keys: vec![] },
        3 => ReadQ::Keys { id: g.eref() },
        4 => ReadQ::KeyCount { id: g.eref() },
        5 => ReadQ::Aliases { id: g.eref() },
        6 => ReadQ::AllAliases,
        7 => ReadQ::Indexes,
        8 => {
            if g.rng.chance(1, 2) {
                ReadQ::NodeCount
            } else {
                ReadQ::EdgeCount { id: g.eref() }
            }
        }
        9 => ReadQ::Elements { kind: Kind::All, limit: g.rng.below(4), offset: g.rng.below(3) },
        10 => ReadQ::Walk { dfs: g.rng.chance(1, 2), from: g.eref() },
        11 => {
            let key = g.key();
            let value = g.val();
            ReadQ::Index { key, value }
        }
        _ => ReadQ::Txn((0..g.rng.range(2, 4)).map(|_| gen_read(g, false)).collect()),
    }
}

type Res = Result<QueryResult, String>;

fn qid_of(elems: &[i64], r: &Ref) -> QueryId {
    match rid(elems, r) {
        crate::dbmodel::RId::Id(i) => QueryId::Id(DbId(i)),
        crate::dbmodel::RId::Alias(a) => QueryId::Alias(a),
    }
}

fn run_read<S: StorageData>(t: &Transaction<'_, S>, elems: &[i64], q: &ReadQ, out: &mut Vec<Res>) {
    let ids = |r: &Ref| QueryIds::Ids(vec![qid_of(elems, r)]);
    let e = |r: Result<QueryResult, DbError>| r.map_err(|e| e.description);
    match q {
        ReadQ::Values { id, keys } => out.push(e(t.exec(SelectValuesQuery { keys: keys.iter().map(to_db).collect(), ids: ids(id) }))),
        ReadQ::Keys { id } => out.push(e(t.exec(SelectKeysQuery(ids(id))))),
        ReadQ::KeyCount { id } => out.push(e(t.exec(SelectKeyCountQuery(ids(id))))),
        ReadQ::Aliases { id } => out.push(e(t.exec(SelectAliasesQuery(ids(id))))),
        ReadQ::AllAliases => out.push(e(t.exec(SelectAllAliasesQuery {}))),
        ReadQ::Indexes => out.push(e(t.exec(SelectIndexesQuery {}))),
        ReadQ::NodeCount => out.push(e(t.exec(SelectNodeCountQuery {}))),
        ReadQ::EdgeCount { id } => out.push(e(t.exec(SelectEdgeCountQuery { ids: ids(id), from: true, to: true }))),
        ReadQ::Elements { kind, limit, offset } => out.push(e(t.exec(elements_search(*kind, *limit, *offset)))),
        ReadQ::Walk { dfs, from } => out.push(e(t.exec(walk(if *dfs { SearchQueryAlgorithm::DepthFirst } else { SearchQueryAlgorithm::BreadthFirst }, qid_of(elems, from), QueryId::Id(DbId(0)))))),
        ReadQ::Index { key, value } => out.push(e(t.exec(index_search(key, value)))),
        ReadQ::Txn(qs) => {
            for q in qs {
                run_read(t, elems, q, out);
            }
        }
    }
}

fn read_all<S: StorageData>(db: &DbImpl<S>, elems: &[i64], q: &ReadQ) -> Vec<Res> {
    let mut out = vec![];
    let _: Result<(), DbError> = db.transaction(|t| {
        run_read(t, elems, q, &mut out);
        Ok(())
    });
    out
}

fn sched_yield() {
    // a scheduling point; sleep (not yield_now) so that PCT does not deprioritise the caller
    shuttle::thread::sleep(std::time::Duration::from_millis(0));
}

struct Shared<S: StorageData> {
    db: shuttle::sync::RwLock<DbImpl<S>>,
    elems: Vec<i64>,
    reads: Vec<ReadQ>,
    baseline: Vec<Vec<Res>>,
    threads: Vec<Vec<u64>>,
    fs: Arc<SimFs>,
    fresh: AtomicU64,
    hashes: std::sync::Mutex<std::collections::BTreeSet<u64>>,
    iterations_done: AtomicU64,
}

fn scenario<S: StorageData + Send + Sync + 'static>(sh: Arc<Shared<S>>) {
    let h0 = sh.fs.hash();
    let mut handles = vec![];
    for (ti, list) in sh.threads.iter().enumerate() {
        let sh2 = sh.clone();
        let list = list.clone();
        handles.push(shuttle::thread::spawn(move || {
            for qi in list {
                let guard = sh2.db.read().unwrap();
                let got = read_all(&*guard, &sh2.elems, &sh2.reads[qi as usize]);
                drop(guard);
                let want = &sh2.baseline[qi as usize];
                assert!(&got == want, "C23: thread {ti} read {qi} {:?}: concurrent result {:?} differs from sequential result {:?}", sh2.reads[qi as usize], brief(&got), brief(want));
            }
        }));
    }
    for h in handles {
        h.join().unwrap();
    }
    sh.iterations_done.fetch_add(1, Ordering::SeqCst);
    let probes = agdb::verif::take_probes();
    if probes.get("file_storage.read.fresh_handle").copied().unwrap_or(0) > 0 {
        sh.fresh.fetch_add(1, Ordering::SeqCst);
        sh.hashes.lock().unwrap().insert(sh.fs.hash() ^ h0);
    }
}

fn brief(r: &[Res]) -> String {
    let s = format!("{r:?}");
    if s.len() > 400 { format!("{}...", &s[..400]) } else { s }
}

fn execute<S: StorageData + Send + Sync + 'static>(plan: &Plan, open: fn(&str) -> Result<DbImpl<S>, DbError>, rep: &mut RunReport) -> Option<(String, String, Option<String>)> {
    // build the database and the sequential baseline without any scheduler involved
    let fs0 = SimFs::new();
    fs0.install();
    let mut elems = vec![];
    let built = catch(|| {
        let mut db = open(DB).ok()?;
        let mut sh = Shadow::default();
        for op in &plan.history {
            let _ = step(&mut db, &mut sh, op);
        }
        elems = sh.elems.clone();
        drop(db);
        Some(())
    });
    SimFs::uninstall();
    if !matches!(built, Caught::Ok(Some(()))) {
        return None;
    }
    let image = fs0.image();
    // the shared instance lives on a yielding file system
    let fs = SimFs::with_yield(image, sched_yield);
    let gfs: Arc<dyn agdb::verif::SimFs> = fs.clone();
    // outside a shuttle execution the yield hook must not run: baseline first on a non-yielding clone
    let fs_seq = SimFs::from_image(fs.image());
    fs_seq.install();
    let baseline: Vec<Vec<Res>> = match open(DB) {
        Ok(db) => plan.reads.iter().map(|q| read_all(&db, &elems, q)).collect(),
        Err(_) => {
            SimFs::uninstall();
            return None;
        }
    };
    SimFs::uninstall();

    agdb::verif::install_global_fs(Some(gfs.clone()));
    agdb::verif::install_fs(Some(gfs));
    let dir = format!("{}/target/tmp/shuttle-{}-{:x}", simcore::verif_dir(), std::process::id(), rep.prog_hash);
    let _ = std::fs::create_dir_all(&dir);
    let plan2 = plan.clone();
    let fs2 = fs.clone();
    let result = std::panic::catch_unwind(std::panic::AssertUnwindSafe(|| {
        // opening happens inside the execution (it reads through the yielding file system)
        let make = move || {
            let db = open(DB).expect("open under shuttle");
            let sh = Arc::new(Shared {
                db: shuttle::sync::RwLock::new(db),
                elems: elems.clone(),
                reads: plan2.reads.clone(),
                baseline: baseline.clone(),
                threads: plan2.threads.clone(),
                fs: fs2.clone(),
                fresh: AtomicU64::new(0),
                hashes: std::sync::Mutex::new(Default::default()),
                iterations_done: AtomicU64::new(0),
            });
            sh
        };
        let counters = Arc::new((AtomicU64::new(0), AtomicU64::new(0), std::sync::Mutex::new(std::collections::BTreeSet::<u64>::new())));
        let c2 = counters.clone();
        let f = move || {
            let sh = make();
            scenario(sh.clone());
            c2.0.fetch_add(1, Ordering::SeqCst);
            c2.1.fetch_add(sh.fresh.load(Ordering::SeqCst), Ordering::SeqCst);
            c2.2.lock().unwrap().extend(sh.hashes.lock().unwrap().iter().copied());
            // never run Drop's defragmentation concurrently with nothing: single-threaded here
        };
        let mut config = shuttle::Config::new();
        config.stack_size = 0x100000;
        config.failure_persistence = shuttle::FailurePersistence::File(Some(std::path::PathBuf::from(&dir)));
        if let Some(s) = &plan.schedule {
            shuttle::replay(f, s);
        } else if plan.pct_depth == 0 {
            let sched = shuttle::scheduler::RandomScheduler::new_from_seed(plan.sched_seed, plan.iterations as usize);
            shuttle::Runner::new(sched, config).run(f);
        } else {
            let sched = shuttle::scheduler::PctScheduler::new_from_seed(plan.sched_seed, plan.pct_depth as usize, plan.iterations as usize);
            shuttle::Runner::new(sched, config).run(f);
        }
        (counters.0.load(Ordering::SeqCst), counters.1.load(Ordering::SeqCst), counters.2.lock().unwrap().len() as u64)
    }));
    agdb::verif::install_global_fs(None);
    agdb::verif::install_fs(None);
    let out = match result {
        Ok((iters, fresh, distinct)) => {
            rep.evals += iters;
            rep.nontrivial += distinct;
            rep.count("schedules_with_fresh_handle_path", fresh);
            None
        }
        Err(p) => {
            let msg = if let Some(s) = p.downcast_ref::<String>() {
                s.clone()
            } else if let Some(s) = p.downcast_ref::<&str>() {
                s.to_string()
            } else {
                "panic".to_string()
            };
            // the failing schedule was persisted by shuttle
            let mut schedule = None;
            if let Ok(rd) = std::fs::read_dir(&dir) {
                for e in rd.flatten() {
                    if let Ok(s) = std::fs::read_to_string(e.path()) {
                        schedule = Some(s.trim().to_string());
                    }
                }
            }
            if plan.schedule.is_some() && (msg.contains("is not runnable") || msg.contains("expected to run")) {
                // a pinned schedule only fits the execution it was recorded from: on different code the
                // recorded decisions do not apply, which is "not reproduced", never a violation
                rep.count("replay.pinned_schedule_not_applicable", 1);
                let _ = std::fs::remove_dir_all(&dir);
                return None;
            }
            let class = if msg.contains("C23:") && msg.contains("differs from sequential") {
                "concurrent-read-differs".to_string()
            } else if msg.contains("open under shuttle") {
                "open-fails-under-concurrency".to_string()
            } else {
                format!("panic:{}", normalise(&msg.chars().take(80).collect::<String>()))
            };
            Some((class, msg, schedule))
        }
    };
    let _ = std::fs::remove_dir_all(&dir);
    rep.log_hash ^= fs.hash();
    out
}

pub fn exec(plan: &Plan, trials: &mut Trials) -> RunReport {
    let mut rep = RunReport::default();
    let mut ph = Fnv::new();
    ph.str(&serde_json::to_string(plan).unwrap());
    rep.prog_hash = ph.get();
    let _ = trials.begin();
    let r = if plan.any_variant { execute(plan, DbAny::new_file, &mut rep) } else { execute(plan, DbFile::new, &mut rep) };
    rep.probes();
    rep.count(if plan.pct_depth == 0 { "scheduler.random" } else { "scheduler.pct" }, 1);
    if let Some((class, detail, schedule)) = r {
        let detail = match schedule {
            Some(s) => format!("{detail} [shuttle schedule: {s}]"),
            None => detail,
        };
        rep.viols.push(Viol { property: "C23".into(), class, detail, trial: 0 });
    }
    rep
}
