//! C04 — stored data survives any pattern of space reuse and defragmentation.
//! Fault-free configuration of the storage simulator: reference model, clean restarts,
//! benign I/O noise (short reads/writes, EINTR) and the contended-read buggify point.

use crate::common::*;
use crate::sexec::*;
use crate::simfs::SimFs;
use crate::sprog::{self, Backend, SOp};
use serde::{Deserialize, Serialize};
use simcore::{Fnv, Rng};

const DATA: &str = "/sim/db";

#[derive(Clone, Debug, Serialize, Deserialize)]
pub struct Plan {
    pub backend: Backend,
    pub noise: [u64; 3],
    /// every n-th FileStorage::read takes the fresh-handle path (0 = never)
    pub buggify_read: u64,
    pub ops: Vec<SOp>,
}

pub fn generate(seed: u64, run: u64, _tier: Tier) -> Plan {
    let mut rng = Rng::derive(seed, run, 4);
    let cfg = sprog::GenCfg {
        min_ops: if rng.chance(1, 3) { 3 } else { 20 },
        max_ops: if rng.chance(1, 4) { 300 } else { 80 },
        transactions: rng.chance(1, 2),
        reopen: true,
        drop_open: false,
    };
    let cfg = sprog::GenCfg { max_ops: cfg.max_ops.max(cfg.min_ops), ..cfg };
    let ops = sprog::generate(&mut rng, &cfg);
    let noise_on = rng.chance(1, 3);
    Plan {
        backend: *rng.pick(&[Backend::File, Backend::Mapped, Backend::Memory]),
        noise: if noise_on { [rng.range(2, 9), rng.range(0, 1) * rng.range(5, 17), rng.range(2, 7)] } else { [0, 0, 0] },
        buggify_read: if rng.chance(1, 2) { rng.range(1, 5) } else { 0 },
        ops,
    }
}

fn verify(store: &AnyStore, st: &ProgState, what: &str) -> Option<(String, String)> {
    for (i, v) in &st.model.live {
        match store.value_as_bytes(*i) {
            Ok(b) if &b == v => {}
            Ok(b) => {
                let at = b.iter().zip(v.iter()).position(|(x, y)| x != y).unwrap_or(b.len().min(v.len()));
                return Some(("value-differs".into(), format!("{what}: index {i} reads {} bytes, model has {} bytes, first difference at offset {at}", b.len(), v.len())));
            }
            Err(e) => return Some(("live-value-unreadable".into(), format!("{what}: index {i}: {}", e.description))),
        }
        match store.value_size(*i) {
            Ok(n) if n == v.len() as u64 => {}
            other => return Some(("size-differs".into(), format!("{what}: index {i} size {other:?}, model {}", v.len()))),
        }
    }
    for i in &st.slots {
        if !st.model.live.contains_key(i) && store.value_as_bytes(*i).is_ok() {
            return Some(("removed-value-readable".into(), format!("{what}: removed index {i} is still readable")));
        }
    }
    None
}

pub fn exec(plan: &Plan, _trials: &mut Trials) -> RunReport {
    let mut rep = RunReport::default();
    let mut ph = Fnv::new();
    ph.str(&serde_json::to_string(plan).unwrap());
    rep.prog_hash = ph.get();
    let fs = SimFs::new();
    fs.noise(plan.noise[0], plan.noise[1], plan.noise[2]);
    fs.install();
    if plan.buggify_read != 0 {
        let n = plan.buggify_read;
        let mut c = 0u64;
        agdb::verif::set_buggify(Some(Box::new(move |site| {
            if site == "file_storage.read.contended" {
                c += 1;
                c % n == 0
            } else {
                false
            }
        })));
    }
    let name = if plan.backend == Backend::Memory { "/sim/mem-no-such-file" } else { DATA };
    let mut evals = 0u64;
    let mut removed = 0u64;
    let out = catch(|| -> Option<(String, String)> {
        let mut store = match AnyStore::open(plan.backend, name) {
            Ok(s) => s,
            Err(e) => return Some(("create-failed".into(), e.description)),
        };
        let mut st = ProgState::default();
        for (n, op) in plan.ops.iter().enumerate() {
            let what = format!("after op {n} {}", short(op));
            let before_live: Vec<u64> = st.model.live.keys().copied().collect();
            match exec_op(&mut store, &mut st, op) {
                OpResult::Skipped => continue,
                OpResult::Structural => {
                    if plan.backend == Backend::Memory || !st.txns.is_empty() {
                        continue;
                    }
                    drop(store);
                    store = match AnyStore::open(plan.backend, name) {
                        Ok(s) => s,
                        Err(e) => return Some(("reopen-failed".into(), format!("{what}: {}", e.description))),
                    };
                }
                OpResult::Err(e) => return Some(("valid-operation-failed".into(), format!("{what}: {e}"))),
                OpResult::Inserted(i) => {
                    if before_live.contains(&i) {
                        return Some(("index-collision".into(), format!("{what}: new index {i} is already in use")));
                    }
                }
                OpResult::Ok => {
                    if matches!(op, SOp::Remove { .. }) {
                        removed += 1;
                    }
                    if matches!(op, SOp::Optimize) && st.txns.is_empty() && store.len() != st.model.packed_len() {
                        return Some(("unused-space-after-defragmentation".into(), format!("{what}: storage length {} but live data needs {}", store.len(), st.model.packed_len())));
                    }
                }
            }
            evals += 1;
            if let Some(v) = verify(&store, &st, &what) {
                return Some(v);
            }
        }
        // final: defragment, check, restart, check
        if st.txns.is_empty() {
            if let Err(e) = store.optimize_storage() {
                return Some(("valid-operation-failed".into(), format!("final optimize: {}", e.description)));
            }
            if store.len() != st.model.packed_len() {
                return Some(("unused-space-after-defragmentation".into(), format!("final optimize: storage length {} but live data needs {}", store.len(), st.model.packed_len())));
            }
            if let Some(v) = verify(&store, &st, "after final optimize") {
                return Some(v);
            }
            if plan.backend != Backend::Memory {
                drop(store);
                let store = match AnyStore::open(plan.backend, name) {
                    Ok(s) => s,
                    Err(e) => return Some(("reopen-failed".into(), format!("final reopen: {}", e.description))),
                };
                if let Some(v) = verify(&store, &st, "after final reopen") {
                    return Some(v);
                }
                if store.len() != st.model.packed_len() {
                    return Some(("unused-space-after-defragmentation".into(), format!("after final reopen: storage length {} but live data needs {}", store.len(), st.model.packed_len())));
                }
                evals += 1;
            }
        }
        None
    });
    agdb::verif::set_buggify(None);
    SimFs::uninstall();
    rep.evals = evals;
    rep.log_hash = fs.hash() ^ evals;
    let c = fs.counters();
    rep.count("fs.reads", c.reads);
    rep.count("fs.writes", c.writes);
    rep.count("fault.short_write", c.faults_short_write);
    rep.count("fault.eintr", c.faults_eintr);
    rep.count("fault.short_read", c.faults_short_read);
    rep.probes();
    rep.count("fault.contended_read_buggify", rep.counters.get("probe.file_storage.read.fresh_handle").copied().unwrap_or(0));
    let reused = rep.counters.get("probe.storage.insert.take_free").copied().unwrap_or(0)
        + rep.counters.get("probe.storage.enlarge_move_to").copied().unwrap_or(0)
        + rep.counters.get("probe.storage.enlarge_in_place").copied().unwrap_or(0);
    if removed > 0 && reused > 0 {
        rep.nontrivial = 1;
    }
    match out {
        Caught::Ok(None) => {}
        Caught::Ok(Some((class, detail))) => rep.viols.push(Viol { property: "C04".into(), class, detail, trial: 0 }),
        Caught::Panic(p) => rep.viols.push(Viol { property: "C04".into(), class: panic_class(&p), detail: p, trial: 0 }),
        Caught::Budget => {}
    }
    rep
}

fn short(op: &SOp) -> String {
    match op {
        SOp::Insert { bytes } => format!("Insert({}B)", bytes.len()),
        SOp::InsertAt { slot, offset, bytes } => format!("InsertAt(slot {slot}, offset {offset}, {}B)", bytes.len()),
        SOp::Replace { slot, bytes } => format!("Replace(slot {slot}, {}B)", bytes.len()),
        SOp::Resize { slot, size } => format!("Resize(slot {slot}, {size})"),
        SOp::Move { slot, from, to, size } => format!("Move(slot {slot}, {from}->{to}, {size}B)"),
        SOp::Remove { slot } => format!("Remove(slot {slot})"),
        other => format!("{other:?}"),
    }
}
