//! Library face of dbsim: the database operation language, the reference model and the
//! public-API executor/dump are reused by srvsim (C25 reference execution).

pub mod common;
pub mod dbexec;
pub mod dbmodel;
pub mod dbprog;
pub mod simfs;
