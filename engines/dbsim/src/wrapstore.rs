//! `Counting<S>`: a public-API StorageData wrapper (used with `DbImpl::with_data`) that counts every
//! storage call against a step budget and unwinds with a marker payload when it is exceeded (C19).

use crate::simfs::BudgetExceeded;
use agdb::{DbError, StorageData, StorageSlice};
use std::cell::Cell;

thread_local! {
    static CALLS: Cell<u64> = const { Cell::new(0) };
    static LIMIT: Cell<u64> = const { Cell::new(u64::MAX) };
}

pub fn calls() -> u64 {
    CALLS.with(|c| c.get())
}

/// Allows `budget` further storage calls (None = unlimited).
pub fn set_budget(budget: Option<u64>) {
    LIMIT.with(|l| l.set(budget.map(|b| calls() + b).unwrap_or(u64::MAX)));
}

fn tick() {
    let n = CALLS.with(|c| {
        c.set(c.get() + 1);
        c.get()
    });
    if n > LIMIT.with(|l| l.get()) {
        LIMIT.with(|l| l.set(u64::MAX));
        std::panic::panic_any(BudgetExceeded);
    }
}

pub struct Counting<S: StorageData>(pub S);

impl<S: StorageData> StorageData for Counting<S> {
    fn backup(&self, name: &str) -> Result<(), DbError> {
        self.0.backup(name)
    }
    fn copy(&self, name: &str) -> Result<Self, DbError> {
        Ok(Counting(self.0.copy(name)?))
    }
    fn flush(&mut self) -> Result<(), DbError> {
        tick();
        self.0.flush()
    }
    fn len(&self) -> u64 {
        self.0.len()
    }
    fn name(&self) -> &str {
        self.0.name()
    }
    fn new(name: &str) -> Result<Self, DbError> {
        Ok(Counting(S::new(name)?))
    }
    fn read(&'_ self, pos: u64, value_len: u64) -> Result<StorageSlice<'_>, DbError> {
        tick();
        self.0.read(pos, value_len)
    }
    fn rename(&mut self, new_name: &str) -> Result<(), DbError> {
        self.0.rename(new_name)
    }
    fn resize(&mut self, new_len: u64) -> Result<(), DbError> {
        tick();
        self.0.resize(new_len)
    }
    fn rollback(&mut self) -> Result<(), DbError> {
        self.0.rollback()
    }
    fn write(&mut self, pos: u64, bytes: &[u8]) -> Result<(), DbError> {
        tick();
        self.0.write(pos, bytes)
    }
}
