//! C05 — reopening and maintenance operations preserve the database.
//! C06 — all storage variants give identical query results (lock-step execution).

use crate::common::*;
use crate::dbexec::*;
use crate::dbmodel::Dump;
use crate::dbprog::*;
use crate::simfs::SimFs;
use dbsim::with_db;
use serde::{Deserialize, Serialize};
use simcore::{Fnv, Rng};
use std::collections::BTreeMap;

#[derive(Clone, Debug, Serialize, Deserialize, PartialEq)]
pub enum MStep {
    Op(Op),
    Reopen { variant: Variant },
    Optimize,
    Shrink,
    /// backup to a new file, open the backup as `open_as`, compare; `switch` = continue on the backup
    Backup { open_as: Variant, switch: bool },
    /// DbImpl::copy, compare; `switch` = continue on the copy
    Copy { switch: bool },
    /// rename, compare, reopen under the new name, compare
    Rename,
}

#[derive(Clone, Debug, Serialize, Deserialize)]
pub struct Plan05 {
    pub variant: Variant,
    /// true: real files in a scratch directory (backup/copy/rename go through std::fs); false: SimFs
    pub real_files: bool,
    pub buggify_read: u64,
    pub steps: Vec<MStep>,
}

const FILE_VARIANTS: [Variant; 4] = [Variant::File, Variant::Mapped, Variant::AnyFile, Variant::AnyMapped];
const ALL_VARIANTS: [Variant; 6] = [Variant::Memory, Variant::File, Variant::Mapped, Variant::AnyMemory, Variant::AnyFile, Variant::AnyMapped];

pub fn generate05(seed: u64, run: u64, _tier: Tier) -> Plan05 {
    let mut rng = Rng::derive(seed, run, 5);
    let profile = match rng.below(8) {
        0 => Profile::Wide,
        1 => Profile::Churn,
        2 => Profile::Values,
        _ => Profile::Small,
    };
    let mut cfg = default_cfg(&mut rng, profile);
    cfg.invalid = rng.chance(1, 3);
    if matches!(profile, Profile::Wide | Profile::Churn) {
        cfg.steps = rng.range(40, 150);
    }
    // state whose in-memory and persisted forms can drift apart: indexes, aliases, removals
    if rng.chance(1, 2) {
        cfg.w[8] = cfg.w[8] * 3 + 10;
        cfg.w[9] = cfg.w[9] * 3 + 8;
        cfg.steps = cfg.steps.max(rng.range(8, 20));
    }
    let ops = crate::dbprog::generate(&mut rng, cfg);
    let real_files = rng.chance(1, 3);
    let variant = if real_files { *rng.pick(&ALL_VARIANTS) } else { *rng.pick(&FILE_VARIANTS) };
    let mut steps = vec![];
    let every = if matches!(profile, Profile::Small | Profile::Values) { 3 } else { 20 };
    let maint = |rng: &mut Rng| -> MStep {
        if real_files {
            match rng.below(7) {
                0 => MStep::Backup { open_as: *rng.pick(&ALL_VARIANTS), switch: rng.chance(1, 2) },
                1 => MStep::Backup { open_as: *rng.pick(&FILE_VARIANTS), switch: rng.chance(1, 2) },
                2 => MStep::Copy { switch: rng.chance(1, 2) },
                3 => MStep::Rename,
                4 => MStep::Optimize,
                5 => MStep::Shrink,
                _ => MStep::Reopen { variant: *rng.pick(&FILE_VARIANTS) },
            }
        } else {
            // simulated files: file-backed kinds only (the in-memory storage's backup writes through std::fs::write)
            match rng.below(9) {
                0 => MStep::Optimize,
                1 => MStep::Shrink,
                2 => MStep::Reopen { variant },
                3 | 4 => MStep::Reopen { variant: *rng.pick(&FILE_VARIANTS) },
                5 => MStep::Backup { open_as: *rng.pick(&FILE_VARIANTS), switch: rng.chance(1, 2) },
                6 => MStep::Copy { switch: rng.chance(1, 2) },
                _ => MStep::Rename,
            }
        }
    };
    for op in ops {
        steps.push(MStep::Op(op));
        if rng.chance(1, every) {
            steps.push(maint(&mut rng));
            if rng.chance(1, 3) {
                steps.push(maint(&mut rng));
            }
        }
    }
    steps.push(maint(&mut rng));
    Plan05 { variant, real_files, buggify_read: if rng.chance(1, 3) { rng.range(1, 4) } else { 0 }, steps }
}

type Ext = (Dump, BTreeMap<String, Vec<i64>>);

fn ext_of(db: &AnyDb) -> Result<Ext, String> {
    with_db!(db, d => extended(d))
}

fn ext_diff(a: &Ext, b: &Ext, an: &str, bn: &str) -> Option<String> {
    if a == b {
        return None;
    }
    if let Some((_, m)) = a.0.diff(&b.0, an, bn).first() {
        return Some(m.clone());
    }
    for (k, v) in &a.1 {
        if b.1.get(k) != Some(v) {
            return Some(format!("{k}: {an} {v:?} vs {bn} {:?}", b.1.get(k)));
        }
    }
    Some("traversal sets differ".into())
}

struct Scratch(String);
impl Drop for Scratch {
    fn drop(&mut self) {
        let _ = std::fs::remove_dir_all(&self.0);
    }
}

pub fn exec05(plan: &Plan05, trials: &mut Trials) -> RunReport {
    let mut rep = RunReport::default();
    let mut ph = Fnv::new();
    ph.str(&serde_json::to_string(plan).unwrap());
    rep.prog_hash = ph.get();
    let _ = trials.begin();
    let fs = SimFs::new();
    let (dir, _guard) = if plan.real_files {
        let d = format!("{}/target/tmp/c05-{}-{:016x}", simcore::verif_dir(), std::process::id(), rep.prog_hash);
        let _ = std::fs::remove_dir_all(&d);
        std::fs::create_dir_all(&d).unwrap();
        (d.clone(), Some(Scratch(d)))
    } else {
        fs.install();
        ("/sim".to_string(), None)
    };
    if plan.buggify_read != 0 {
        let n = plan.buggify_read;
        let mut c = 0u64;
        agdb::verif::set_buggify(Some(Box::new(move |site| {
            if site == "file_storage.read.contended" {
                c += 1;
                c % n == 0
            } else {
                false
            }
        })));
    }
    let mut evals = 0u64;
    let mut kinds: BTreeMap<&'static str, u64> = BTreeMap::new();
    let mut nontrivial = 0u64;
    let mut lh = Fnv::new();
    let out = catch(|| -> Option<(String, String)> {
        let mut gen_no = 0u64;
        let mut name = format!("{dir}/db{gen_no}");
        let mut cur = plan.variant;
        let mut db = match AnyDb::open(cur, &name) {
            Ok(d) => d,
            Err(e) => return Some(("HARNESS".into(), format!("create failed: {}", e.description))),
        };
        let mut sh = Shadow::default();
        for (n, st) in plan.steps.iter().enumerate() {
            let op = match st {
                MStep::Op(op) => {
                    let o = with_db!(&mut db, d => step(d, &mut sh, op));
                    lh.u64(o.ok as u64);
                    continue;
                }
                other => other,
            };
            let before = match ext_of(&db) {
                Ok(e) => e,
                Err(_) => return None, // unreadable before maintenance: not this property's business
            };
            let nonempty = !before.0.elements.is_empty();
            let what;
            let mut after_handles: Vec<(String, Result<Ext, String>)> = vec![];
            match op {
                MStep::Reopen { variant } => {
                    what = format!("step {n}: close and reopen {cur:?} as {variant:?}");
                    if !cur.file_backed() {
                        continue;
                    }
                    *kinds.entry(if *variant == cur { "fault.clean_restart" } else { "fault.restart_with_other_variant" }).or_insert(0) += 1;
                    drop(db);
                    db = match AnyDb::open(*variant, &name) {
                        Ok(d) => d,
                        Err(e) => return Some(("reopen-failed".into(), format!("{what}: {}", e.description))),
                    };
                    cur = *variant;
                    after_handles.push(("reopened".into(), ext_of(&db)));
                }
                MStep::Optimize => {
                    what = format!("step {n}: optimize_storage");
                    *kinds.entry("maintenance.optimize_storage").or_insert(0) += 1;
                    if let Err(e) = with_db!(&mut db, d => d.optimize_storage()) {
                        return Some(("maintenance-failed".into(), format!("{what}: {}", e.description)));
                    }
                    after_handles.push(("optimized".into(), ext_of(&db)));
                }
                MStep::Shrink => {
                    what = format!("step {n}: shrink_to_fit");
                    *kinds.entry("maintenance.shrink_to_fit").or_insert(0) += 1;
                    if let Err(e) = with_db!(&mut db, d => d.shrink_to_fit()) {
                        return Some(("maintenance-failed".into(), format!("{what}: {}", e.description)));
                    }
                    after_handles.push(("shrunk".into(), ext_of(&db)));
                }
                MStep::Backup { open_as, switch } => {
                    gen_no += 1;
                    let target = format!("{dir}/db{gen_no}");
                    what = format!("step {n}: backup of {cur:?} opened as {open_as:?}");
                    *kinds.entry("maintenance.backup").or_insert(0) += 1;
                    if let Err(e) = with_db!(&db, d => d.backup(&target)) {
                        return Some(("maintenance-failed".into(), format!("{what}: {}", e.description)));
                    }
                    let b = match AnyDb::open(*open_as, &target) {
                        Ok(d) => d,
                        Err(e) => return Some(("backup-does-not-open".into(), format!("{what}: {}", e.description))),
                    };
                    after_handles.push(("backup".into(), ext_of(&b)));
                    after_handles.push(("original after backup".into(), ext_of(&db)));
                    if *switch {
                        db = b;
                        cur = *open_as;
                        name = target;
                    }
                }
                MStep::Copy { switch } => {
                    gen_no += 1;
                    let target = format!("{dir}/db{gen_no}");
                    what = format!("step {n}: copy of {cur:?}");
                    *kinds.entry("maintenance.copy").or_insert(0) += 1;
                    let c = match &db {
                        AnyDb::M(d) => d.copy(&target).map(AnyDb::M),
                        AnyDb::F(d) => d.copy(&target).map(AnyDb::F),
                        AnyDb::P(d) => d.copy(&target).map(AnyDb::P),
                        AnyDb::A(d) => d.copy(&target).map(AnyDb::A),
                    };
                    let c = match c {
                        Ok(c) => c,
                        Err(e) => return Some(("maintenance-failed".into(), format!("{what}: {}", e.description))),
                    };
                    after_handles.push(("copy".into(), ext_of(&c)));
                    after_handles.push(("original after copy".into(), ext_of(&db)));
                    if *switch {
                        db = c;
                        name = target;
                    }
                }
                MStep::Rename => {
                    gen_no += 1;
                    let target = format!("{dir}/db{gen_no}");
                    what = format!("step {n}: rename of {cur:?}");
                    *kinds.entry("maintenance.rename").or_insert(0) += 1;
                    if let Err(e) = with_db!(&mut db, d => d.rename(&target)) {
                        return Some(("maintenance-failed".into(), format!("{what}: {}", e.description)));
                    }
                    after_handles.push(("renamed".into(), ext_of(&db)));
                    name = target;
                    if cur.file_backed() {
                        drop(db);
                        db = match AnyDb::open(cur, &name) {
                            Ok(d) => d,
                            Err(e) => return Some(("reopen-failed".into(), format!("{what}, then reopen under the new name: {}", e.description))),
                        };
                        after_handles.push(("renamed and reopened".into(), ext_of(&db)));
                    }
                }
                MStep::Op(_) => unreachable!(),
            }
            for (label, ext) in after_handles {
                evals += 1;
                if nonempty {
                    nontrivial += 1;
                }
                match ext {
                    Err(e) => return Some(("unreadable-after-maintenance".into(), format!("{what}: {label}: {e}"))),
                    Ok(a) => {
                        if let Some(d) = ext_diff(&before, &a, "before", &label) {
                            return Some(("result-changed".into(), format!("{what}: {d}")));
                        }
                    }
                }
            }
            // the model keeps running across the event, so "same as before" cannot hold by both being wrong
            if let Ok(d) = with_db!(&db, d => dump(d)) {
                let mut m = sh.model.clone();
                for (id, kvs) in &d.values {
                    // failed steps may have permuted property order (C13): adopt order when the multiset agrees
                    let mut a = m.props.get(id).cloned().unwrap_or_default();
                    let mut b = kvs.clone();
                    a.sort();
                    b.sort();
                    if a == b {
                        m.props.insert(*id, kvs.clone());
                    }
                }
                m.props.retain(|_, v| !v.is_empty());
                if let Some((_, msg)) = m.dump().diff(&d, "model", "database").first() {
                    return Some(("differs-from-model-after-maintenance".into(), format!("{what}: {msg}")));
                }
                sh.model = m;
            }
        }
        None
    });
    agdb::verif::set_buggify(None);
    if !plan.real_files {
        SimFs::uninstall();
    }
    rep.evals = evals;
    rep.nontrivial = nontrivial;
    rep.log_hash = fs.hash() ^ lh.get() ^ evals;
    for (k, v) in kinds {
        rep.count(k, v);
    }
    rep.count(if plan.real_files { "config.real_scratch_files" } else { "config.simfs" }, 1);
    rep.probes();
    match out {
        Caught::Ok(None) => {}
        Caught::Ok(Some((class, detail))) => {
            let property = if class == "HARNESS" { "HARNESS" } else { "C05" };
            rep.viols.push(Viol { property: property.into(), class, detail, trial: 0 });
        }
        Caught::Panic(p) => rep.viols.push(Viol { property: "C05".into(), class: panic_class(&p), detail: p, trial: 0 }),
        Caught::Budget => {}
    }
    rep
}

// ---------------------------------------------------------------- C06

#[derive(Clone, Debug, Serialize, Deserialize)]
pub struct Plan06 {
    pub buggify_read: u64,
    pub noise: [u64; 3],
    pub dump_every: u64,
    pub steps: Vec<Op>,
}

pub fn generate06(seed: u64, run: u64, _tier: Tier) -> Plan06 {
    let mut rng = Rng::derive(seed, run, 6);
    let profile = match rng.below(8) {
        0 => Profile::Wide,
        1 => Profile::Churn,
        2 | 3 => Profile::Values,
        _ => Profile::Small,
    };
    let mut cfg = default_cfg(&mut rng, profile);
    if matches!(profile, Profile::Wide | Profile::Churn) {
        cfg.steps = rng.range(40, 200);
    }
    let steps = crate::dbprog::generate(&mut rng, cfg);
    Plan06 {
        buggify_read: if rng.chance(1, 2) { rng.range(1, 4) } else { 0 },
        noise: if rng.chance(1, 4) { [rng.range(2, 9), 0, rng.range(2, 7)] } else { [0, 0, 0] },
        dump_every: if matches!(profile, Profile::Small | Profile::Values) { 1 } else { rng.range(8, 30) },
        steps,
    }
}

pub fn exec06(plan: &Plan06, trials: &mut Trials) -> RunReport {
    let mut rep = RunReport::default();
    let mut ph = Fnv::new();
    ph.str(&serde_json::to_string(plan).unwrap());
    rep.prog_hash = ph.get();
    let _ = trials.begin();
    let fs = SimFs::new();
    fs.noise(plan.noise[0], plan.noise[1], plan.noise[2]);
    fs.install();
    if plan.buggify_read != 0 {
        let n = plan.buggify_read;
        let mut c = 0u64;
        agdb::verif::set_buggify(Some(Box::new(move |site| {
            if site == "file_storage.read.contended" {
                c += 1;
                c % n == 0
            } else {
                false
            }
        })));
    }
    let mut evals = 0u64;
    let mut nontrivial = 0u64;
    let mut lh = Fnv::new();
    let out = catch(|| -> Option<(String, String)> {
        let mut dbs: Vec<(Variant, AnyDb, Shadow)> = vec![];
        for (i, v) in ALL_VARIANTS.iter().enumerate() {
            match AnyDb::open(*v, &format!("/sim/v{i}/db")) {
                Ok(d) => dbs.push((*v, d, Shadow::default())),
                Err(e) => return Some(("HARNESS".into(), format!("create {v:?} failed: {}", e.description))),
            }
        }
        for (n, op) in plan.steps.iter().enumerate() {
            let mut outs = vec![];
            for (_, db, sh) in dbs.iter_mut() {
                let o = with_db!(db, d => step(d, sh, op));
                outs.push((o.ok, o.err.clone(), sh.elems.clone()));
            }
            evals += 1;
            lh.u64(outs[0].0 as u64);
            for i in 1..outs.len() {
                if outs[i] != outs[0] {
                    return Some((
                        "query-result-differs".into(),
                        format!("step {n} {}: {:?} gave ok={} err={:?} ids={:?} but {:?} gave ok={} err={:?} ids={:?}", op.name(), dbs[0].0, outs[0].0, outs[0].1, tail(&outs[0].2), dbs[i].0, outs[i].0, outs[i].1, tail(&outs[i].2)),
                    ));
                }
            }
            let last = n + 1 == plan.steps.len();
            if last || (n as u64 + 1) % plan.dump_every == 0 {
                let mut exts = vec![];
                for (v, db, _) in dbs.iter() {
                    match ext_of(db) {
                        Ok(e) => exts.push(e),
                        Err(e) => return Some(("read-fails-on-one-variant".into(), format!("after step {n} {}: {v:?}: {e}", op.name()))),
                    }
                }
                if !exts[0].0.elements.is_empty() {
                    nontrivial += 1;
                }
                for i in 1..exts.len() {
                    if let Some(d) = ext_diff(&exts[0], &exts[i], &format!("{:?}", dbs[0].0), &format!("{:?}", dbs[i].0)) {
                        return Some(("read-result-differs".into(), format!("after step {n} {}: {d}", op.name())));
                    }
                }
            }
        }
        None
    });
    agdb::verif::set_buggify(None);
    SimFs::uninstall();
    rep.evals = evals;
    rep.nontrivial = nontrivial;
    rep.log_hash = fs.hash() ^ lh.get();
    let c = fs.counters();
    rep.count("fault.short_write", c.faults_short_write);
    rep.count("fault.short_read", c.faults_short_read);
    rep.probes();
    rep.count("fault.contended_read_buggify", rep.counters.get("probe.file_storage.read.fresh_handle").copied().unwrap_or(0));
    match out {
        Caught::Ok(None) => {}
        Caught::Ok(Some((class, detail))) => {
            let property = if class == "HARNESS" { "HARNESS" } else { "C06" };
            rep.viols.push(Viol { property: property.into(), class, detail, trial: 0 });
        }
        Caught::Panic(p) => rep.viols.push(Viol { property: "C06".into(), class: panic_class(&p), detail: p, trial: 0 }),
        Caught::Budget => {}
    }
    rep
}

fn tail(v: &[i64]) -> Vec<i64> {
    v.iter().rev().take(6).rev().copied().collect()
}
