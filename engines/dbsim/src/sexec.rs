//! Executes storage programs against the real storage layer.

use crate::sprog::{Backend, SOp};
use agdb::verif::VerifStorage;
use agdb::{DbError, FileStorage, FileStorageMemoryMapped, MemoryStorage};

pub enum AnyStore {
    File(VerifStorage<FileStorage>),
    Mapped(VerifStorage<FileStorageMemoryMapped>),
    Memory(VerifStorage<MemoryStorage>),
}

macro_rules! each {
    ($s:expr, $v:ident => $e:expr) => {
        match $s {
            AnyStore::File($v) => $e,
            AnyStore::Mapped($v) => $e,
            AnyStore::Memory($v) => $e,
        }
    };
}

impl AnyStore {
    pub fn open(backend: Backend, name: &str) -> Result<AnyStore, DbError> {
        Ok(match backend {
            Backend::File => AnyStore::File(VerifStorage::new(name)?),
            Backend::Mapped => AnyStore::Mapped(VerifStorage::new(name)?),
            Backend::Memory => AnyStore::Memory(VerifStorage::new(name)?),
        })
    }
    pub fn insert_bytes(&mut self, b: &[u8]) -> Result<u64, DbError> {
        each!(self, s => s.insert_bytes(b))
    }
    pub fn insert_bytes_at(&mut self, i: u64, o: u64, b: &[u8]) -> Result<(), DbError> {
        each!(self, s => s.insert_bytes_at(i, o, b))
    }
    pub fn replace_with_bytes(&mut self, i: u64, b: &[u8]) -> Result<(), DbError> {
        each!(self, s => s.replace_with_bytes(i, b))
    }
    pub fn resize_value(&mut self, i: u64, n: u64) -> Result<(), DbError> {
        each!(self, s => s.resize_value(i, n))
    }
    pub fn move_at(&mut self, i: u64, f: u64, t: u64, n: u64) -> Result<(), DbError> {
        each!(self, s => s.move_at(i, f, t, n))
    }
    pub fn remove(&mut self, i: u64) -> Result<(), DbError> {
        each!(self, s => s.remove(i))
    }
    pub fn optimize_storage(&mut self) -> Result<(), DbError> {
        each!(self, s => s.optimize_storage())
    }
    pub fn transaction(&mut self) -> u64 {
        each!(self, s => s.transaction())
    }
    pub fn commit(&mut self, id: u64) -> Result<(), DbError> {
        each!(self, s => s.commit(id))
    }
    pub fn value_as_bytes(&self, i: u64) -> Result<Vec<u8>, DbError> {
        each!(self, s => s.value_as_bytes(i))
    }
    pub fn value_size(&self, i: u64) -> Result<u64, DbError> {
        each!(self, s => s.value_size(i))
    }
    pub fn len(&self) -> u64 {
        each!(self, s => s.len())
    }
    pub fn records(&self) -> Vec<(u64, u64, u64)> {
        each!(self, s => s.records())
    }
}

/// State of a running program: the slot table maps program slots to storage indexes.
#[derive(Default)]
pub struct ProgState {
    pub slots: Vec<u64>,
    pub txns: Vec<u64>,
    /// byte-level model of the values, kept in step with the storage
    pub model: crate::sprog::Model,
    /// model snapshots at each open Begin (DropOpen rolls back to the outermost one)
    pub saved: Vec<(crate::sprog::Model, usize)>,
    pub skipped: u64,
}

impl ProgState {
    pub fn resolve(&self, slot: u64) -> Option<u64> {
        if self.slots.is_empty() {
            return None;
        }
        // slots beyond the table address a never-existing index on purpose
        if slot as usize >= self.slots.len() {
            return Some(1_000_000 + slot);
        }
        Some(self.slots[slot as usize])
    }
}

pub enum OpResult {
    Ok,
    Inserted(u64),
    Err(String),
    /// structural op handled by the caller (Reopen / DropOpen)
    Structural,
    /// the model says the request is invalid in this state (can happen after shrinking): not executed
    Skipped,
}

/// Executes a data operation (or Begin/End). Reopen/DropOpen are returned as Structural.
pub fn exec_op(store: &mut AnyStore, st: &mut ProgState, op: &SOp) -> OpResult {
    let index = match op {
        SOp::InsertAt { slot, .. } | SOp::Replace { slot, .. } | SOp::Resize { slot, .. } | SOp::Move { slot, .. } | SOp::Remove { slot } => {
            st.slots.get(*slot as usize).copied()
        }
        _ => None,
    };
    if !st.model.valid(op, index) {
        st.skipped += 1;
        return OpResult::Skipped;
    }
    let r = exec_raw(store, st, op);
    match &r {
        OpResult::Ok => {
            match op {
                SOp::Begin => st.saved.push((st.model.clone(), st.slots.len())),
                SOp::End => {
                    st.saved.pop();
                }
                _ => {
                    let _ = st.model.apply(op, index, None);
                }
            }
        }
        OpResult::Inserted(i) => {
            let _ = st.model.apply(op, None, Some(*i));
        }
        _ => {}
    }
    r
}

fn exec_raw(store: &mut AnyStore, st: &mut ProgState, op: &SOp) -> OpResult {
    let r = match op {
        SOp::Insert { bytes } => match store.insert_bytes(bytes) {
            Ok(i) => {
                st.slots.push(i);
                return OpResult::Inserted(i);
            }
            Err(e) => Err(e),
        },
        SOp::InsertAt { slot, offset, bytes } => match st.resolve(*slot) {
            Some(i) => store.insert_bytes_at(i, *offset, bytes),
            None => return OpResult::Err("no slot".into()),
        },
        SOp::Replace { slot, bytes } => match st.resolve(*slot) {
            Some(i) => store.replace_with_bytes(i, bytes),
            None => return OpResult::Err("no slot".into()),
        },
        SOp::Resize { slot, size } => match st.resolve(*slot) {
            Some(i) => store.resize_value(i, *size),
            None => return OpResult::Err("no slot".into()),
        },
        SOp::Move { slot, from, to, size } => match st.resolve(*slot) {
            Some(i) => store.move_at(i, *from, *to, *size),
            None => return OpResult::Err("no slot".into()),
        },
        SOp::Remove { slot } => match st.resolve(*slot) {
            Some(i) => store.remove(i),
            None => return OpResult::Err("no slot".into()),
        },
        SOp::Optimize => store.optimize_storage(),
        SOp::Begin => {
            let id = store.transaction();
            st.txns.push(id);
            Ok(())
        }
        SOp::End => match st.txns.pop() {
            Some(id) => store.commit(id),
            None => Ok(()),
        },
        SOp::Reopen | SOp::DropOpen => return OpResult::Structural,
    };
    match r {
        Ok(()) => OpResult::Ok,
        Err(e) => OpResult::Err(e.description),
    }
}
