//! Copies the real consensus core (agdb_server/src/raft.rs) into this crate at build time:
//! drops its #[cfg(test)] module, points `Instant` at the simulator's virtual clock and appends
//! read-only accessors inside the same module. The repository file is never modified.
use std::path::PathBuf;

fn main() {
    let repo = std::env::var("VERIF_REPO").unwrap_or_else(|_| "/repo".to_string());
    let src = PathBuf::from(&repo).join("agdb_server/src/raft.rs");
    println!("cargo:rerun-if-env-changed=VERIF_REPO");
    generate(&src, "raft_gen.rs");
    // the recorded baseline: the consensus core as it was when the known findings were recorded
    // (used only to tell on which histories a recorded deviation is the recorded defect)
    let base = PathBuf::from(std::env::var("CARGO_MANIFEST_DIR").unwrap()).join("baseline/raft.rs");
    generate(&base, "raft_base_gen.rs");
}

fn generate(src: &PathBuf, out_name: &str) {
    println!("cargo:rerun-if-changed={}", src.display());
    let text = std::fs::read_to_string(&src).unwrap_or_else(|e| panic!("cannot read {}: {e}", src.display()));
    let cut = text.find("#[cfg(test)]\nmod test").unwrap_or(text.len());
    let mut body = text[..cut].to_string();
    let clock = "use std::time::Instant;";
    if body.matches(clock).count() != 1 {
        panic!("harness error: expected exactly one `{clock}` in raft.rs (the clock seam)");
    }
    body = body.replace(clock, "use crate::simclock::Instant;");
    if body.contains("Instant::") && !body.contains("crate::simclock::Instant") {
        panic!("harness error: clock rewrite failed");
    }
    if body.contains("SystemTime") || body.contains("tokio::time") || body.contains("std::thread::sleep") {
        panic!("harness error: raft.rs reads a clock the simulator does not own");
    }
    body.push_str(
        r#"

// ---- appended by raftsim/build.rs: read-only accessors for the simulator's oracles
impl<T: Clone, N, S: Storage<T, N>> Cluster<T, N, S> {
    pub(crate) fn verif_is_leader(&self) -> bool {
        matches!(self.state, ClusterState::Leader)
    }
    pub(crate) fn verif_term(&self) -> u64 {
        self.term
    }
    pub(crate) fn verif_state(&self) -> String {
        format!("{:?}", self.state)
    }
    pub(crate) fn verif_local_commit(&self) -> u64 {
        self.local().log_commit
    }
    pub(crate) fn verif_index(&self) -> u64 {
        self.index
    }
}

impl<T> Request<T> {
    pub(crate) fn verif_kind(&self) -> &'static str {
        match self.data {
            RequestType::Append(_) => "Append",
            RequestType::Heartbeat => "Heartbeat",
            RequestType::PreVote => "PreVote",
            RequestType::Vote => "Vote",
        }
    }
    pub(crate) fn verif_term(&self) -> u64 {
        self.term
    }
    pub(crate) fn verif_log(&self) -> (u64, u64, u64) {
        (self.log_index, self.log_term, self.log_commit)
    }
    pub(crate) fn verif_entries(&self) -> usize {
        match &self.data {
            RequestType::Append(l) => l.len(),
            _ => 0,
        }
    }
}

impl Response {
    pub(crate) fn verif_ok(&self) -> bool {
        matches!(self.result, ResponseType::Ok)
    }
    pub(crate) fn verif_kind(&self) -> &'static str {
        match self.result {
            ResponseType::Ok => "Ok",
            ResponseType::CommitError(_) => "CommitError",
            ResponseType::ClusterMismatch(_) => "ClusterMismatch",
            ResponseType::LeaderMismatch(_) => "LeaderMismatch",
            ResponseType::TermMismatch(_) => "TermMismatch",
            ResponseType::LogMismatch(_) => "LogMismatch",
            ResponseType::AlreadyVoted(_) => "AlreadyVoted",
        }
    }
}
"#,
    );
    let out = PathBuf::from(std::env::var("OUT_DIR").unwrap()).join(out_name);
    std::fs::write(out, body).unwrap();
}
