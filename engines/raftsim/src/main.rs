//! raftsim — deterministic simulation of the cluster consensus core (engine E2): the real
//! agdb_server/src/raft.rs driven by a discrete-event network and a virtual clock.

mod checks;
mod server_error;
mod sim;
mod simclock;
mod store;
#[allow(clippy::all)]
mod raft {
    include!(concat!(env!("OUT_DIR"), "/raft_gen.rs"));
}

fn main() {
    let eng = simcore::harness::Engine {
        name: "raftsim",
        find: checks::find,
        simulated_time: "virtual clock: discrete-event queue, 10 ms node ticks; counters.simulated_ms is the total simulated time of this run",
        alloc_cap: usize::MAX,
        hang_s: |_| 120,
    };
    std::process::exit(simcore::harness::main_dispatch(&eng));
}
