//! raftsim — deterministic simulation of the cluster consensus core (engine E2): the real
//! agdb_server/src/raft.rs driven by a discrete-event network and a virtual clock.

mod checks;
mod server_error;
mod simclock;
/// the simulator over /repo's consensus core
mod cur {
    #[allow(clippy::all)]
    pub mod raft {
        include!(concat!(env!("OUT_DIR"), "/raft_gen.rs"));
    }
    #[path = "../sim.rs"]
    pub mod sim;
    #[path = "../store.rs"]
    pub mod store;
}
/// the same simulator over the recorded baseline of the consensus core (baseline/raft.rs)
#[allow(dead_code)]
mod base {
    #[allow(clippy::all)]
    pub mod raft {
        include!(concat!(env!("OUT_DIR"), "/raft_base_gen.rs"));
    }
    #[path = "../sim.rs"]
    pub mod sim;
    #[path = "../store.rs"]
    pub mod store;
}

fn main() {
    let eng = simcore::harness::Engine {
        name: "raftsim",
        find: checks::find,
        simulated_time: "virtual clock: discrete-event queue, 10 ms node ticks; counters.simulated_ms is the total simulated time of this run",
        alloc_cap: usize::MAX,
        hang_s: |_| 120,
    };
    std::process::exit(simcore::harness::main_dispatch(&eng));
}
