//! Virtual clock behind `Instant`: the only clock raft.rs reads. Time is the simulator's global
//! nanosecond counter seen through the current node's offset (clock jumps) and drift.

use std::cell::Cell;
use std::time::Duration;

thread_local! {
    static NOW_NS: Cell<u64> = const { Cell::new(0) };
    static OFFSET_NS: Cell<u64> = const { Cell::new(0) };
}

pub fn set(global_ns: u64, node_offset_ns: u64) {
    NOW_NS.with(|n| n.set(global_ns));
    OFFSET_NS.with(|n| n.set(node_offset_ns));
}

#[derive(Clone, Copy, Debug, PartialEq, Eq, PartialOrd, Ord)]
pub struct Instant(u64);

impl Instant {
    pub fn now() -> Instant {
        Instant(NOW_NS.with(|n| n.get()) + OFFSET_NS.with(|n| n.get()))
    }
    pub fn elapsed(&self) -> Duration {
        Duration::from_nanos(Instant::now().0.saturating_sub(self.0))
    }
    #[allow(dead_code)]
    pub fn duration_since(&self, earlier: Instant) -> Duration {
        Duration::from_nanos(self.0.saturating_sub(earlier.0))
    }
}
