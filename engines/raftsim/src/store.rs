//! In-memory log store mirroring the observable behaviour of the server's ClusterStorage +
//! ClusterLog (cluster.rs / cluster_log.rs): append removes *uncommitted* entries with index >=
//! the new one, commit marks uncommitted entries <= index and only then moves the commit index,
//! logs(from) returns the newest (count - from) entries, where a limit of 0 means "everything".

use super::raft::{Log, Storage};
use crate::server_error::ServerResult;

#[derive(Clone, Debug, PartialEq)]
pub struct Entry {
    pub index: u64,
    pub term: u64,
    pub data: u64,
    pub committed: bool,
}

#[derive(Clone, Debug, Default)]
pub struct MemStore {
    /// insertion order (the server keeps them as edges from one node; newest first when traversed)
    pub entries: Vec<Entry>,
    pub index: u64,
    pub term: u64,
    pub commit: u64,
    /// every (index, term, data) this node ever marked committed, in commit order
    pub committed_history: Vec<(u64, u64, u64)>,
}

impl Storage<u64, ()> for MemStore {
    async fn append(&mut self, log: Log<u64>, _notifier: Option<()>) -> ServerResult<()> {
        self.entries.retain(|e| e.committed || e.index < log.index);
        self.entries.push(Entry { index: log.index, term: log.term, data: log.data, committed: false });
        self.index = log.index;
        self.term = log.term;
        Ok(())
    }

    async fn commit(&mut self, index: u64) -> ServerResult<()> {
        let mut todo: Vec<usize> = (0..self.entries.len()).filter(|i| !self.entries[*i].committed && self.entries[*i].index <= index).collect();
        todo.sort_by_key(|i| self.entries[*i].index);
        for i in todo {
            self.commit = index;
            self.entries[i].committed = true;
            let e = &self.entries[i];
            self.committed_history.push((e.index, e.term, e.data));
        }
        Ok(())
    }

    fn log_index(&self) -> u64 {
        self.index
    }

    fn log_term(&self) -> u64 {
        self.term
    }

    fn log_commit(&self) -> u64 {
        self.commit
    }

    async fn logs(&self, from_index: u64) -> ServerResult<Vec<Log<u64>>> {
        let count = self.entries.len() as u64;
        let limit = count.saturating_sub(from_index);
        let take = if limit == 0 { self.entries.len() } else { limit as usize };
        let start = self.entries.len() - take;
        Ok(self.entries[start..].iter().map(|e| Log { db_id: None, index: e.index, term: e.term, data: e.data }).collect())
    }
}
