//! Two-line stand-in for agdb_server::server_error (raft.rs only reads `description`).
#[derive(Debug)]
pub(crate) struct ServerError {
    pub(crate) description: String,
}
pub(crate) type ServerResult<T = ()> = Result<T, ServerError>;
