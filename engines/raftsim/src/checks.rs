//! C27-C30: plans (seeded fault schedules), execution, registry.

use crate::cur::sim::*;
use serde_json::Value;
use simcore::harness::*;
use simcore::{Fnv, Rng};
use std::collections::BTreeMap;

fn gen_plan(focus: &str, seed: u64, run: u64, tier: Tier) -> Plan {
    let stream = focus.bytes().fold(7u64, |a, b| a * 31 + b as u64);
    let mut rng = Rng::derive(seed, run, stream);
    let nodes = if rng.chance(1, 5) { 5 } else { 3 };
    let hb = rng.range(300, 1500);
    let liveness = focus == "C30";
    let faulty_prefix = !liveness || rng.chance(1, 2);
    let horizon_ms = if faulty_prefix {
        match tier {
            Tier::Quick => rng.range(8_000, 40_000),
            Tier::Thorough => rng.range(8_000, 120_000),
        }
    } else {
        0
    };
    let mut plan = Plan {
        focus: focus.to_string(),
        nodes,
        election_factor_ms: 0,
        heartbeat_ms: hb,
        term_ms: rng.range(hb * 2, hb * 4),
        latency_ms: rng.range(1, 60),
        jitter_seed: if rng.chance(1, 8) { 0 } else { rng.next() | 1 },
        tick_phase_us: (0..nodes).map(|_| rng.below(10_000)).collect(),
        horizon_ms,
        settle_ms: if liveness { 60_000 + 35_000 + 5_000 } else { 0 },
        tail_appends: if liveness { rng.range(0, 4) } else { 0 },
        no_cut: false,
        events: vec![],
    };
    // "timers fire as configured": only configurations in which every node's election timeout
    // (election_factor x node index) fits inside the term timeout are generated; otherwise the
    // higher-index nodes can never start an election by construction of process() (with the shipped
    // defaults 1000/3000 that holds for clusters of up to 4 nodes)
    let max_factor = (plan.term_ms - 20) / (nodes - 1);
    plan.election_factor_ms = rng.range((max_factor / 4).max(50), max_factor.max(51));
    if !faulty_prefix {
        return plan;
    }
    // swarm: each fault kind is enabled per run
    let on = |rng: &mut Rng, p: u64| rng.chance(p, 100);
    let drop = if on(&mut rng, 60) { rng.range(5, 150) } else { 0 };
    let dup = if on(&mut rng, 40) { rng.range(5, 80) } else { 0 };
    let delay = if on(&mut rng, 60) { rng.range(10, 250) } else { 0 };
    let max_delay_ms = *rng.pick(&[50, 300, 1200, 4000]);
    let mut timed = vec![];
    // client appends: at every node at once (only a node that believes it leads accepts), biased to follow elections
    let n_app = rng.range(2, 14);
    let mut data = 1u64;
    // swarm: in some runs every client append is a pipelined burst of 2-4 entries in the same millisecond
    let burst = if on(&mut rng, 30) { rng.range(2, 4) } else { 1 };
    for _ in 0..n_app {
        let at = rng.range(500, horizon_ms.max(600));
        for _ in 0..burst {
            for node in 0..nodes {
                timed.push(Ev::Append { at_ms: at, node, data });
                data += 1;
            }
        }
    }
    if on(&mut rng, 70) {
        let n = rng.range(1, 4);
        for _ in 0..n {
            let at = rng.range(300, horizon_ms.max(400));
            // isolate one node, split minority/majority, or cut into singletons
            let groups: Vec<Vec<u64>> = match rng.below(3) {
                0 => {
                    let lone = rng.below(nodes);
                    vec![vec![lone], (0..nodes).filter(|x| *x != lone).collect()]
                }
                1 => {
                    let mut ids: Vec<u64> = (0..nodes).collect();
                    rng.shuffle(&mut ids);
                    let k = (nodes / 2) as usize;
                    vec![ids[..k].to_vec(), ids[k..].to_vec()]
                }
                _ => (0..nodes).map(|x| vec![x]).collect(),
            };
            timed.push(Ev::Partition { at_ms: at, groups });
            timed.push(Ev::Heal { at_ms: at + rng.range(200, 8_000) });
        }
    }
    if on(&mut rng, 35) {
        // partial partitions: one or two links down for a long time while every other pair still talks
        for _ in 0..rng.range(1, 2) {
            let a = rng.below(nodes);
            let b = (a + 1 + rng.below(nodes - 1)) % nodes;
            timed.push(Ev::CutLink { at_ms: rng.range(100, horizon_ms.max(200)), a, b, for_ms: rng.range(2_000, 30_000) });
        }
    }
    if on(&mut rng, 40) {
        for _ in 0..rng.range(1, 3) {
            timed.push(Ev::ClockJump { at_ms: rng.range(100, horizon_ms.max(200)), node: rng.below(nodes), ms: rng.range(100, 6_000) });
        }
    }
    if on(&mut rng, 40) {
        for _ in 0..rng.range(1, 2) {
            timed.push(Ev::Stall { at_ms: rng.range(100, horizon_ms.max(200)), node: rng.below(nodes), for_ms: rng.range(200, 7_000) });
        }
    }
    plan.events = timed;
    // record mode: run once drawing a fate for every message, and pin the deviations into the plan
    let recorded = {
        let mut r2 = Rng::derive(seed, run, stream ^ 0x55);
        let adapt = [if on(&mut rng, 60) { rng.range(20, 90) } else { 0 }, if on(&mut rng, 50) { rng.range(10, 60) } else { 0 }, if on(&mut rng, 40) { rng.range(10, 60) } else { 0 }];
        let chooser = Chooser::Record { rng: &mut r2, drop, dup, delay, max_delay_ms, until_ns: horizon_ms * 1_000_000, out: vec![], adapt, next_data: 500_000, vote_hold: if on(&mut rng, 35) { rng.range(50, 400) } else { 0 } };
        let mut sim = Sim::new(&plan, chooser);
        sim.run();
        sim.recorded()
    };
    plan.events.extend(recorded);
    plan
}

fn exec_plan(plan: &Plan) -> RunReport {
    let mut rep = RunReport::default();
    let mut h = Fnv::new();
    h.str(&serde_json::to_string(plan).unwrap());
    rep.prog_hash = h.get();
    let mut map = BTreeMap::new();
    for ev in &plan.events {
        if let Ev::Msg { from, to, seq, act } = ev {
            map.insert((*from, *to, *seq), act.clone());
        }
    }
    let mut sim = Sim::new(plan, Chooser::Replay(map));
    // recorded root causes (known_findings.jsonl): runs are cut where one of them first occurs
    let known_roots: Vec<String> = simcore::findings::known_for(&plan.focus).iter().filter_map(|f| f.signature.split(" via ").nth(1).map(|s| s.to_string())).collect();
    if !plan.no_cut {
        sim.cut_on = known_roots.clone();
    }
    let r = catch(|| sim.run());
    if let Caught::Panic(p) = r {
        rep.viols.push(Viol { property: plan.focus.clone(), class: panic_class(&p), detail: p, trial: 0 });
        return rep;
    }
    rep.evals = 1;
    rep.log_hash = sim.stats.log.get();
    for (k, v) in &sim.stats.counters {
        rep.count(k, *v);
    }
    rep.count("simulated_ms", sim.stats.sim_ms);
    let nontrivial = if plan.focus == "C30" { sim.stats.elected && sim.stats.replicated > 0 } else { sim.stats.leader_changes_after_append > 0 };
    if nontrivial {
        rep.nontrivial = 1;
    }
    if let Some(c) = &sim.cut {
        rep.known_cut = Some(c.clone());
        rep.count("entered_known_defect_territory", 1);
    }
    // ---- is a recorded deviation on this history the recorded defect? Ask the recorded baseline of the consensus
    // core (baseline/raft.rs, the code the known findings were recorded on): if it shows the same deviation on the same
    // plan, it is; if it does not, the deviation is new behaviour of the code under test on this history, the run is
    // executed again without the cut and judged, and a violation carries a class of its own.
    let touched: Option<String> = sim.cut.clone().or_else(|| sim.violations.iter().any(|v| v.property == plan.focus).then(|| sim.ghosts.iter().find(|g| known_roots.contains(g)).cloned()).flatten());
    if let Some(g) = touched {
        let base_ghosts = baseline_ghosts(plan);
        rep.count("baseline_consulted", 1);
        if !base_ghosts.contains(&g) {
            rep.count("recorded_deviation_absent_from_baseline", 1);
            let mut full = plan.clone();
            full.no_cut = true;
            let mut map = BTreeMap::new();
            for ev in &full.events {
                if let Ev::Msg { from, to, seq, act } = ev {
                    map.insert((*from, *to, *seq), act.clone());
                }
            }
            let mut sim2 = Sim::new(&full, Chooser::Replay(map));
            if let Caught::Panic(p) = catch(|| sim2.run()) {
                rep.viols.push(Viol { property: plan.focus.clone(), class: panic_class(&p), detail: p, trial: 0 });
                return rep;
            }
            if let Some(v) = sim2.violations.iter().find(|v| v.property == plan.focus) {
                let short = g.split(':').next().unwrap_or("G?").to_string();
                rep.viols.push(Viol {
                    property: v.property.to_string(),
                    class: format!("{} via {g} on a history where the recorded baseline shows no {short}", v.class),
                    detail: format!("{} [the recorded baseline of raft.rs, run on the same plan, shows the deviations {:?}]", v.detail, base_ghosts),
                    trial: 0,
                });
            }
            rep.known_cut = None;
            return rep;
        }
    }
    for v in &sim.violations {
        if v.property == plan.focus {
            // the class carries the root-cause signature: the first ghost-monitor deviation on the trace
            let root = if sim.ghosts.first().map(|g| g.starts_with("G11:")).unwrap_or(false) { sim.ghosts.first() } else { sim.ghosts.iter().find(|g| known_roots.contains(g)).or(sim.ghosts.first()) };
            let class = match root {
                Some(g) => format!("{} via {g}", v.class),
                None => v.class.clone(),
            };
            rep.viols.push(Viol { property: v.property.to_string(), class, detail: v.detail.clone(), trial: 0 });
            break;
        }
    }
    rep
}

/// The deviations (ghost monitors) the recorded baseline shows on this plan, run to its end without any cut.
fn baseline_ghosts(plan: &Plan) -> Vec<String> {
    use crate::base::sim as b;
    let mut bplan: b::Plan = serde_json::from_value(serde_json::to_value(plan).unwrap()).expect("plan round trip");
    bplan.no_cut = true;
    let mut map = BTreeMap::new();
    for ev in &bplan.events {
        if let b::Ev::Msg { from, to, seq, act } = ev {
            map.insert((*from, *to, *seq), act.clone());
        }
    }
    let mut sim = b::Sim::new(&bplan, b::Chooser::Replay(map));
    match catch(|| sim.run()) {
        Caught::Panic(_) => vec!["baseline-panicked".to_string()],
        _ => sim.ghosts.clone(),
    }
}

macro_rules! raft_check {
    ($gen:ident, $exec:ident, $id:literal) => {
        fn $gen(seed: u64, run: u64, tier: Tier) -> Value {
            serde_json::to_value(gen_plan($id, seed, run, tier)).unwrap()
        }
        fn $exec(plan: &Value, t: &mut Trials) -> RunReport {
            let _ = t.begin();
            let plan: Plan = serde_json::from_value(plan.clone()).expect("bad plan");
            exec_plan(&plan)
        }
    };
}
raft_check!(c27_gen, c27_exec, "C27");
raft_check!(c28_gen, c28_exec, "C28");
raft_check!(c29_gen, c29_exec, "C29");
raft_check!(c30_gen, c30_exec, "C30");

const REAL: &[&str] = &["agdb_server/src/raft.rs (copied verbatim at build time; only `use std::time::Instant` is redirected and read-only accessors are appended)"];
const STUB: &[&str] = &[
    "recorded baseline: a frozen copy of raft.rs (engines/raftsim/baseline/raft.rs, the code the known findings were recorded on) runs in a second instance of the simulator, only on plans that touch a recorded deviation, to decide whether that deviation on that history is the recorded defect (counters baseline_consulted / recorded_deviation_absent_from_baseline)",
    "clock: virtual nanosecond counter behind Instant (per-node forward jumps)",
    "network: discrete-event queue (latency, drop, duplicate, delay/reorder, partitions, stalled nodes)",
    "log store: 40-line in-memory mirror of ClusterStorage/ClusterLog (append drops uncommitted entries >= index, commit moves the index only when it marks an entry, logs(from) = newest count-from entries with limit 0 = everything)",
    "HTTP transport, tokio tasks and ClusterStorage itself are not in this engine (the latter runs for real in srvsim)",
];
const SAFETY_RULE: &str = "runs = seeded fault schedules over 3-node (80%) and 5-node clusters with per-run timer settings around the shipped defaults: per-message drop / duplicate / delay-reorder decisions (pinned into the plan by a recording pass), partitions (isolated node, minority/majority split, all singletons) and heals, forward clock jumps, stalled nodes, and client appends offered at every node at once (a node accepts only while it believes it leads, which includes stale leaders); the invariant is evaluated after every delivered event; evaluations = simulated runs; distinct_nontrivial = runs (distinct by plan hash) in which at least one leader change happened after a client append had been accepted";
const ASSUME: &[&str] = &[
    "no node crash/restart: the statements do not quantify over it and Cluster::new persists neither term nor vote",
    "the log store is a model of ClusterStorage's observable behaviour, not the real one",
];

fn def(id: &'static str, generate: fn(u64, u64, Tier) -> Value, exec: fn(&Value, &mut Trials) -> RunReport, rule: &'static str) -> CheckDef {
    CheckDef {
        id,
        level: "exploration",
        generate,
        exec,
        steps: "/events",
        runs: if id == "C30" {
            |t| match t {
                Tier::Quick => 30_000,
                Tier::Thorough => 400_000,
            }
        } else {
            |t| match t {
                Tier::Quick => 50_000,
                Tier::Thorough => 400_000,
            }
        },
        wall_cap_s: |t| match t {
            Tier::Quick => 120,
            Tier::Thorough => 1700,
        },
        rule,
        assumptions: ASSUME,
        real: REAL,
        stub: STUB,
        eval_unit: "simulated cluster runs (invariant checked after every event)",
    }
}

pub fn find(id: &str) -> Option<CheckDef> {
    match id {
        "C27" => Some(def("C27", c27_gen, c27_exec, SAFETY_RULE)),
        "C28" => Some(def("C28", c28_gen, c28_exec, SAFETY_RULE)),
        "C29" => Some(def("C29", c29_gen, c29_exec, SAFETY_RULE)),
        "C30" => Some(def(
            "C30",
            c30_gen,
            c30_exec,
            "runs = fault-free schedules (every message delivered after a seeded latency, 10 ms ticks with seeded per-node phase) from the initial state, and from the state left by a seeded faulty prefix once all faults have stopped; bounded liveness: 60 simulated seconds after the last fault there must be exactly one leader, and every entry appended at that leader afterwards must be committed on every node by the end of the run (a further 35 simulated seconds); no requirement on which node leads or on step counts while faults flow; evaluations = simulated runs; distinct_nontrivial = runs (distinct by plan hash) that elected a leader and replicated at least one entry",
        )),
        _ => None,
    }
}
