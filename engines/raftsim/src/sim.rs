//! Discrete-event simulator around the real raft.rs: virtual clock, adversarial network,
//! client appends, and the property oracles evaluated after every event.

use super::raft::{Cluster, ClusterSettings, Request, Response};
use crate::simclock;
use super::store::MemStore;
use serde::{Deserialize, Serialize};
use simcore::{Fnv, Rng};
use std::collections::{BTreeMap, BTreeSet, BinaryHeap};
use std::future::Future;
use std::task::{Context, Poll, Waker};
use std::time::Duration;

pub type Node = Cluster<u64, (), MemStore>;

pub fn block_on<F: Future>(f: F) -> F::Output {
    let mut f = std::pin::pin!(f);
    let mut cx = Context::from_waker(Waker::noop());
    match f.as_mut().poll(&mut cx) {
        Poll::Ready(v) => v,
        Poll::Pending => panic!("raft future pending: the in-memory store never suspends"),
    }
}

#[derive(Clone, Debug, Serialize, Deserialize, PartialEq)]
pub enum MsgAct {
    Drop,
    /// deliver a second copy `ms` after the first
    Dup { ms: u64 },
    /// extra latency (reorders it behind later messages)
    Delay { ms: u64 },
}

#[derive(Clone, Debug, Serialize, Deserialize, PartialEq)]
pub enum Ev {
    /// deviation for the `seq`-th message sent from `from` to `to` (requests and responses share the pair counter)
    Msg { from: u64, to: u64, seq: u64, act: MsgAct },
    /// nodes in different groups cannot exchange messages
    Partition { at_ms: u64, groups: Vec<Vec<u64>> },
    Heal { at_ms: u64 },
    /// the link between two nodes is down for a while, both directions (a partial, non-transitive partition:
    /// both can still talk to everybody else)
    CutLink { at_ms: u64, a: u64, b: u64, for_ms: u64 },
    /// the node's clock jumps forward (a timer fires early)
    ClockJump { at_ms: u64, node: u64, ms: u64 },
    /// the node neither ticks nor answers for a while (its peers' requests fail)
    Stall { at_ms: u64, node: u64, for_ms: u64 },
    /// a client append at `node` (executed only if the node believes it is the leader)
    Append { at_ms: u64, node: u64, data: u64 },
}

#[derive(Clone, Debug, Serialize, Deserialize)]
pub struct Plan {
    pub focus: String,
    pub nodes: u64,
    pub election_factor_ms: u64,
    pub heartbeat_ms: u64,
    pub term_ms: u64,
    pub latency_ms: u64,
    /// every message gets an extra delay in [0, latency_ms], a pure function of (jitter_seed, from, to, seq):
    /// "delivered after a finite seeded delay", so exactly periodic resonances are not the only schedules tried
    #[serde(default)]
    pub jitter_seed: u64,
    /// per node: phase of its 10 ms tick
    pub tick_phase_us: Vec<u64>,
    /// faults may happen until here
    pub horizon_ms: u64,
    /// fault-free tail after the horizon (bounded liveness is judged here)
    pub settle_ms: u64,
    /// appends issued during the tail at whoever leads then
    pub tail_appends: u64,
    /// replay files of recorded known findings run past the point where the search would cut them
    #[serde(default)]
    pub no_cut: bool,
    pub events: Vec<Ev>,
}

#[derive(Clone, Debug)]
pub struct Violation {
    pub property: &'static str,
    pub class: String,
    pub detail: String,
}

#[derive(Default)]
pub struct Stats {
    pub counters: BTreeMap<String, u64>,
    pub log: Fnv,
    pub sim_ms: u64,
    pub leader_changes_after_append: u64,
    pub elected: bool,
    pub replicated: u64,
}

impl Stats {
    fn count(&mut self, k: &str) {
        *self.counters.entry(k.to_string()).or_insert(0) += 1;
    }
}

#[derive(PartialEq, Eq, PartialOrd, Ord)]
struct Queued {
    // BinaryHeap is a max-heap: order by Reverse((time, seq))
    key: std::cmp::Reverse<(u64, u64)>,
    kind: Kind,
}

#[derive(PartialEq, Eq, PartialOrd, Ord, Clone, Debug)]
enum Kind {
    Tick(u64),
    Req(u64),
    Resp(u64),
    Timed(usize),
    TailAppend(u64),
    /// the horizon: every fault stops (partitions heal, stalled nodes resume)
    EndFaults,
    /// adaptive event drawn by the recording pass (it is written into the plan as an ordinary timed event)
    Dyn(usize),
}

struct Msg {
    from: u64,
    to: u64,
    req: Request<u64>,
    resp: Option<Response>,
}

fn clone_req(r: &Request<u64>) -> Request<u64> {
    serde_json::from_value(serde_json::to_value(r).unwrap()).unwrap()
}
fn clone_resp(r: &Response) -> Response {
    serde_json::from_value(serde_json::to_value(r).unwrap()).unwrap()
}

/// Decides the fate of every message: replay mode looks the deviation up in the plan, record mode
/// draws it and records it.
pub enum Chooser<'a> {
    Replay(BTreeMap<(u64, u64, u64), MsgAct>),
    Record { rng: &'a mut Rng, drop: u64, dup: u64, delay: u64, max_delay_ms: u64, until_ns: u64, out: Vec<Ev>, adapt: [u64; 3], next_data: u64, vote_hold: u64 },
}

pub struct Sim<'a> {
    pub plan: &'a Plan,
    pub nodes: Vec<Node>,
    now_ns: u64,
    seq: u64,
    queue: BinaryHeap<Queued>,
    msgs: BTreeMap<u64, Msg>,
    next_msg: u64,
    pair_seq: BTreeMap<(u64, u64), u64>,
    offset_ns: Vec<u64>,
    stalled_until_ns: Vec<u64>,
    group: Option<Vec<u64>>,
    chooser: Chooser<'a>,
    pub stats: Stats,
    // oracle state
    leaders_by_term: BTreeMap<u64, BTreeSet<u64>>,
    was_leader: Vec<bool>,
    committed: BTreeMap<u64, (u64, u64, u64)>, // index -> (term, data, first node)
    seen_history: Vec<usize>,
    last_commit: Vec<u64>,
    last_core_commit: Vec<u64>,
    hole_seen: Vec<bool>,
    cut_links: Vec<(u64, u64, u64)>,
    last_term: Vec<u64>,
    /// (index, entry term, data, term of the leader that committed it)
    leader_committed: Vec<(u64, u64, u64, u64)>,
    appended_any: bool,
    tail_data: Vec<(u64, u64)>, // (data, appended at ns)
    next_data: u64,
    pub violations: Vec<Violation>,
    trace: bool,
    last_desc: String,
    /// first deviation from the protocol's standard obligations seen on this trace (root-cause signature)
    pub ghosts: Vec<String>,
    /// stop evaluating at the first *known* root-cause deviation (known_findings.jsonl)
    pub cut_on: Vec<String>,
    pub cut: Option<String>,
    truncated: bool,
    split_brain_seen: bool,
    term_at_end_of_faults: u64,
    dyn_events: Vec<Ev>,
    /// per follower: consecutive LogMismatch answers to Appends without any change of its log state
    mismatch_streak: Vec<(u64, (u64, u64, u64))>,
}

const MS: u64 = 1_000_000;

impl<'a> Sim<'a> {
    pub fn new(plan: &'a Plan, chooser: Chooser<'a>) -> Self {
        simclock::set(0, 0);
        let n = plan.nodes;
        let nodes = (0..n)
            .map(|i| {
                Cluster::new(
                    MemStore::default(),
                    ClusterSettings {
                        index: i,
                        size: n,
                        hash: 7,
                        election_factor_ms: plan.election_factor_ms,
                        heartbeat_timeout: Duration::from_millis(plan.heartbeat_ms),
                        term_timeout: Duration::from_millis(plan.term_ms),
                    },
                )
            })
            .collect();
        let mut s = Sim {
            plan,
            nodes,
            now_ns: 0,
            seq: 0,
            queue: BinaryHeap::new(),
            msgs: BTreeMap::new(),
            next_msg: 0,
            pair_seq: BTreeMap::new(),
            offset_ns: vec![0; n as usize],
            stalled_until_ns: vec![0; n as usize],
            group: None,
            chooser,
            stats: Stats::default(),
            leaders_by_term: BTreeMap::new(),
            was_leader: vec![false; n as usize],
            committed: BTreeMap::new(),
            seen_history: vec![0; n as usize],
            last_commit: vec![0; n as usize],
            last_core_commit: vec![0; n as usize],
            hole_seen: vec![false; n as usize],
            cut_links: vec![],
            last_term: vec![0; n as usize],
            leader_committed: vec![],
            appended_any: false,
            tail_data: vec![],
            next_data: 1_000_000,
            violations: vec![],
            trace: std::env::var("VERIF_TRACE").is_ok(),
            last_desc: String::new(),
            ghosts: vec![],
            cut_on: vec![],
            cut: None,
            truncated: false,
            split_brain_seen: false,
            term_at_end_of_faults: 0,
            dyn_events: vec![],
            mismatch_streak: vec![(0, (0, 0, 0)); n as usize],
        };
        for i in 0..n {
            let phase = plan.tick_phase_us.get(i as usize).copied().unwrap_or(0) * 1000;
            s.push(phase, Kind::Tick(i));
        }
        for (i, ev) in plan.events.iter().enumerate() {
            let at = match ev {
                Ev::Partition { at_ms, .. } | Ev::Heal { at_ms } | Ev::CutLink { at_ms, .. } | Ev::ClockJump { at_ms, .. } | Ev::Stall { at_ms, .. } | Ev::Append { at_ms, .. } => Some(*at_ms),
                Ev::Msg { .. } => None,
            };
            if let Some(at) = at {
                s.push(at * MS, Kind::Timed(i));
            }
        }
        s.push(plan.horizon_ms * MS, Kind::EndFaults);
        // tail appends, evenly spaced in the first third of the settle window after the election window
        for k in 0..plan.tail_appends {
            let at = plan.horizon_ms + 60_000 + k * 1000;
            if at < plan.horizon_ms + plan.settle_ms {
                s.push(at * MS, Kind::TailAppend(k));
            }
        }
        s
    }

    fn push(&mut self, at_ns: u64, kind: Kind) {
        self.seq += 1;
        self.queue.push(Queued { key: std::cmp::Reverse((at_ns, self.seq)), kind });
    }

    fn clock_for(&self, node: u64) {
        simclock::set(self.now_ns, self.offset_ns[node as usize]);
    }

    fn blocked(&self, a: u64, b: u64) -> bool {
        if self.cut_links.iter().any(|(x, y, until)| *until > self.now_ns && ((*x == a && *y == b) || (*x == b && *y == a))) {
            return true;
        }
        match &self.group {
            Some(g) => g[a as usize] != g[b as usize],
            None => false,
        }
    }

    fn faults_allowed(&self) -> bool {
        self.now_ns < self.plan.horizon_ms * MS
    }

    /// Puts a message on the wire: decides drop / dup / delay.
    fn send(&mut self, msg: Msg, is_resp: bool) {
        let (from, to) = if is_resp { (msg.to, msg.from) } else { (msg.from, msg.to) };
        let ps = self.pair_seq.entry((from, to)).or_insert(0);
        let seq = *ps;
        *ps += 1;
        let act = match &mut self.chooser {
            Chooser::Replay(map) => map.get(&(from, to, seq)).cloned(),
            Chooser::Record { rng, drop, dup, delay, max_delay_ms, until_ns, out, vote_hold, .. } => {
                if self.now_ns >= *until_ns {
                    None
                } else {
                    // election traffic (PreVote / Vote requests and their answers) is biased towards being held
                    // back for a term timeout or more, or lost: stale votes and half-delivered candidacies
                    let election = *vote_hold > 0 && matches!(msg.req.verif_kind(), "Vote" | "PreVote");
                    // ... and so is, more rarely, the answer to any request (a stale TermMismatch / LogMismatch / Ok
                    // that arrives several elections later)
                    let stale_answer = *vote_hold > 0 && is_resp && rng.below(1000) < *vote_hold / 8;
                    let x = rng.below(1000);
                    let act = if stale_answer {
                        Some(MsgAct::Delay { ms: rng.range(self.plan.term_ms, self.plan.term_ms * 6) })
                    } else if election && rng.below(1000) < *vote_hold {
                        if rng.chance(1, 3) { Some(MsgAct::Drop) } else { Some(MsgAct::Delay { ms: rng.range(self.plan.term_ms / 2, self.plan.term_ms * 4) }) }
                    } else if x < *drop {
                        Some(MsgAct::Drop)
                    } else if x < *drop + *dup {
                        Some(MsgAct::Dup { ms: rng.range(1, *max_delay_ms) })
                    } else if x < *drop + *dup + *delay {
                        Some(MsgAct::Delay { ms: rng.range(1, *max_delay_ms) })
                    } else {
                        None
                    };
                    if let Some(a) = &act {
                        out.push(Ev::Msg { from, to, seq, act: a.clone() });
                    }
                    act
                }
            }
        };
        let act = if self.faults_allowed() { act } else { None };
        let jitter_ns = if self.plan.jitter_seed == 0 {
            0
        } else {
            let mut h = Fnv::new();
            h.u64(self.plan.jitter_seed).u64(from).u64(to).u64(seq);
            (h.get() >> 11) % (self.plan.latency_ms * MS + 1)
        };
        let base = self.now_ns + self.plan.latency_ms * MS + jitter_ns;
        let kind = |id| if is_resp { Kind::Resp(id) } else { Kind::Req(id) };
        self.stats.log.u64(from).u64(to).u64(seq);
        match act {
            Some(MsgAct::Drop) => {
                self.stats.count(if is_resp { "fault.drop_response" } else { "fault.drop_request" });
            }
            Some(MsgAct::Dup { ms }) => {
                self.stats.count(if is_resp { "fault.duplicate_response" } else { "fault.duplicate_request" });
                let copy = Msg { from: msg.from, to: msg.to, req: clone_req(&msg.req), resp: msg.resp.as_ref().map(clone_resp) };
                let id = self.next_msg;
                self.next_msg += 2;
                self.msgs.insert(id, msg);
                self.msgs.insert(id + 1, copy);
                self.push(base, kind(id));
                self.push(base + ms * MS, kind(id + 1));
            }
            Some(MsgAct::Delay { ms }) => {
                self.stats.count("fault.delay_reorder");
                let id = self.next_msg;
                self.next_msg += 1;
                self.msgs.insert(id, msg);
                self.push(base + ms * MS, kind(id));
            }
            None => {
                let id = self.next_msg;
                self.next_msg += 1;
                self.msgs.insert(id, msg);
                self.push(base, kind(id));
            }
        }
    }

    fn send_requests(&mut self, from: u64, reqs: Vec<Request<u64>>) {
        for r in reqs {
            let to = r.target;
            self.stats.count(&format!("msg.{}", r.verif_kind()));
            self.send(Msg { from, to, req: r, resp: None }, false);
        }
    }

    fn stalled(&self, node: u64) -> bool {
        self.now_ns < self.stalled_until_ns[node as usize]
    }

    /// Runs until the queue is exhausted or the end of the settle window; returns false when a violation stopped it.
    pub fn run(&mut self) {
        let end_ns = (self.plan.horizon_ms + self.plan.settle_ms) * MS;
        let mut steps = 0u64;
        while let Some(q) = self.queue.pop() {
            let (at, _) = q.key.0;
            if at > end_ns {
                break;
            }
            self.now_ns = at;
            steps += 1;
            if steps > 400_000 {
                self.stats.count("run_truncated_at_step_cap");
                self.truncated = true;
                break;
            }
            match q.kind {
                Kind::Tick(n) => {
                    if self.trace {
                        self.last_desc = String::new();
                    }
                    if !self.stalled(n) {
                        self.clock_for(n);
                        if let Some(reqs) = self.nodes[n as usize].process() {
                            self.stats.log.u64(1000 + n);
                            self.send_requests(n, reqs);
                        }
                    }
                    self.push(at + 10 * MS, Kind::Tick(n));
                }
                Kind::Req(id) => {
                    let Some(m) = self.msgs.remove(&id) else { continue };
                    if self.blocked(m.from, m.to) {
                        self.stats.count("fault.partition_dropped_request");
                        continue;
                    }
                    if self.stalled(m.to) {
                        self.stats.count("fault.stall_dropped_request");
                        continue;
                    }
                    self.clock_for(m.to);
                    let before: Vec<(u64, u64, u64)> = self.nodes[m.to as usize].storage.entries.iter().map(|e| (e.index, e.term, e.data)).collect();
                    let resp = block_on(self.nodes[m.to as usize].request(&m.req));
                    if m.req.verif_kind() == "Append" {
                        self.ghost_g3(m.from, m.to, &before);
                        let st = &self.nodes[m.to as usize].storage;
                        let state = (st.index, st.term, st.commit);
                        let streak = &mut self.mismatch_streak[m.to as usize];
                        if resp.verif_kind() == "LogMismatch" && streak.1 == state {
                            streak.0 += 1;
                        } else {
                            *streak = (if resp.verif_kind() == "LogMismatch" { 1 } else { 0 }, state);
                        }
                        if streak.0 >= 200 && !self.ghosts.iter().any(|g| g.starts_with("G10:")) {
                            // G10: the leader's reconcile rounds make no progress on this follower
                            self.ghosts.push("G10:reconcile-loop-makes-no-progress".to_string());
                            self.stats.count("ghost.G10");
                        }
                    }
                    if self.trace {
                        self.last_desc = format!("{}->{} {} t{} log{:?} => {}", m.from, m.to, m.req.verif_kind(), m.req.verif_term(), m.req.verif_log(), resp.verif_kind());
                    }
                    self.stats.count(&format!("resp.{}", resp.verif_kind()));
                    self.stats.log.u64(2000 + m.to).str(resp.verif_kind());
                    self.send(Msg { from: m.from, to: m.to, req: m.req, resp: Some(resp) }, true);
                }
                Kind::Resp(id) => {
                    let Some(m) = self.msgs.remove(&id) else { continue };
                    if self.blocked(m.from, m.to) {
                        self.stats.count("fault.partition_dropped_response");
                        continue;
                    }
                    if self.stalled(m.from) {
                        self.stats.count("fault.stall_dropped_response");
                        continue;
                    }
                    self.clock_for(m.from);
                    let resp = m.resp.as_ref().unwrap();
                    if self.trace {
                        self.last_desc = format!("{}<-{} resp {} to {} t{}", m.from, m.to, resp.verif_kind(), m.req.verif_kind(), m.req.verif_term());
                    }
                    match block_on(self.nodes[m.from as usize].response(&m.req, resp)) {
                        Ok(Some(reqs)) => self.send_requests(m.from, reqs),
                        Ok(None) => {}
                        Err(e) => {
                            self.stats.count("response_handler_error");
                            let _ = e.description;
                        }
                    }
                }
                Kind::Timed(i) => {
                    if self.trace {
                        self.last_desc = format!("{:?}", self.plan.events[i]).chars().take(34).collect();
                    }
                    self.timed(i)
                }
                Kind::TailAppend(k) => self.tail_append(k),
                Kind::Dyn(i) => {
                    let ev = self.dyn_events[i].clone();
                    self.apply_timed(&ev);
                }
                Kind::EndFaults => {
                    self.term_at_end_of_faults = (0..self.plan.nodes as usize).map(|i| self.nodes[i].verif_term()).max().unwrap_or(0);
                    self.ghost_divergence();
                    self.group = None;
                    self.cut_links.clear();
                    for s in self.stalled_until_ns.iter_mut() {
                        *s = 0;
                    }
                }
            }
            if self.trace && !self.last_desc.is_empty() {
                let st: Vec<String> = (0..self.plan.nodes as usize).map(|i| format!("{}:{}t{} i{}/{} c{}", i, self.nodes[i].verif_state(), self.nodes[i].verif_term(), self.nodes[i].storage.index, self.nodes[i].storage.term, self.nodes[i].storage.commit)).collect();
                eprintln!("{:>8.1}ms {:<34} | {}", self.now_ns as f64 / 1e6, self.last_desc, st.join("  "));
            }
            if self.cut.is_none()
                && let Some(g) = self.ghosts.iter().find(|g| self.cut_on.contains(g))
            {
                // known root cause reached: what follows is known-defect territory, not evaluated
                self.cut = Some(g.clone());
                break;
            }
            self.check();
            if !self.violations.is_empty() {
                break;
            }
        }
        self.stats.sim_ms = self.now_ns / MS;
        self.finish();
    }

    fn timed(&mut self, i: usize) {
        let ev = self.plan.events[i].clone();
        self.apply_timed(&ev);
    }

    /// Recording pass only: faults are biased to land where in-flight state exists (right after an
    /// election, right after an accepted append). Whatever is drawn here is pinned into the plan.
    fn adapt(&mut self, trigger: u8, node: u64) {
        let now_ms = self.now_ns / MS;
        let horizon = self.plan.horizon_ms;
        let nodes = self.plan.nodes;
        let mut new_events: Vec<Ev> = vec![];
        if let Chooser::Record { rng, adapt, next_data, .. } = &mut self.chooser {
            if now_ms + 50 >= horizon {
                return;
            }
            match trigger {
                0 => {
                    // a node has just become leader
                    if rng.below(100) < adapt[0] {
                        // either spread out, or a pipelined burst: several appends in the same millisecond,
                        // so that their Append requests are in flight together and can overtake each other
                        let burst = rng.chance(1, 3);
                        let at = now_ms + rng.range(5, 900);
                        for _ in 0..rng.range(1, if burst { 4 } else { 3 }) {
                            *next_data += 1;
                            new_events.push(Ev::Append { at_ms: if burst { at } else { now_ms + rng.range(5, 900) }, node, data: *next_data });
                        }
                    }
                    if rng.below(100) < adapt[1] {
                        let at = now_ms + rng.range(5, 1500);
                        new_events.push(Ev::Partition { at_ms: at, groups: vec![vec![node], (0..nodes).filter(|x| *x != node).collect()] });
                        new_events.push(Ev::Heal { at_ms: at + rng.range(300, 6000) });
                    }
                }
                2 => {
                    // split brain: both leaders get an append, then the partition heals
                    if rng.below(100) < adapt[0].max(40) {
                        *next_data += 1;
                        new_events.push(Ev::Append { at_ms: now_ms + rng.range(1, 300), node, data: *next_data });
                        new_events.push(Ev::Heal { at_ms: now_ms + rng.range(50, 2500) });
                    }
                }
                _ => {
                    // a client append has just been accepted
                    if rng.below(100) < adapt[2] {
                        let at = now_ms + rng.range(0, 120);
                        new_events.push(Ev::Partition { at_ms: at, groups: vec![vec![node], (0..nodes).filter(|x| *x != node).collect()] });
                        new_events.push(Ev::Heal { at_ms: at + rng.range(300, 6000) });
                    }
                }
            }
        }
        for ev in new_events {
            let at = match &ev {
                Ev::Partition { at_ms, .. } | Ev::Heal { at_ms } | Ev::Append { at_ms, .. } => *at_ms,
                _ => now_ms,
            };
            if let Chooser::Record { out, .. } = &mut self.chooser {
                out.push(ev.clone());
            }
            self.dyn_events.push(ev);
            let idx = self.dyn_events.len() - 1;
            self.push(at * MS, Kind::Dyn(idx));
        }
    }

    /// Recording pass only: cut the given nodes off from the rest for a long while (pinned into the plan).
    fn adapt_partition_off(&mut self, group: Vec<u64>) {
        let now_ms = self.now_ns / MS;
        let nodes = self.plan.nodes;
        if now_ms + 50 >= self.plan.horizon_ms {
            return;
        }
        let mut new_events: Vec<Ev> = vec![];
        if let Chooser::Record { rng, .. } = &mut self.chooser {
            let at = now_ms + rng.range(0, 40);
            let rest: Vec<u64> = (0..nodes).filter(|x| !group.contains(x)).collect();
            if group.is_empty() || rest.is_empty() {
                return;
            }
            new_events.push(Ev::Partition { at_ms: at, groups: vec![group, rest] });
            new_events.push(Ev::Heal { at_ms: at + rng.range(4_000, 20_000) });
        }
        for ev in new_events {
            let at = match &ev {
                Ev::Partition { at_ms, .. } | Ev::Heal { at_ms } => *at_ms,
                _ => now_ms,
            };
            if let Chooser::Record { out, .. } = &mut self.chooser {
                out.push(ev.clone());
            }
            self.dyn_events.push(ev);
            let idx = self.dyn_events.len() - 1;
            self.push(at * MS, Kind::Dyn(idx));
        }
    }

    fn apply_timed(&mut self, ev: &Ev) {
        if !self.faults_allowed() {
            return;
        }
        match ev.clone() {
            Ev::Partition { groups, .. } => {
                let mut g = vec![u64::MAX; self.plan.nodes as usize];
                for (gi, members) in groups.iter().enumerate() {
                    for m in members {
                        if (*m as usize) < g.len() {
                            g[*m as usize] = gi as u64;
                        }
                    }
                }
                // unlisted nodes are isolated each in its own group
                for (k, x) in g.iter_mut().enumerate() {
                    if *x == u64::MAX {
                        *x = 1000 + k as u64;
                    }
                }
                self.group = Some(g);
                self.stats.count("fault.partition");
            }
            Ev::Heal { .. } => {
                if self.group.take().is_some() {
                    self.stats.count("fault.heal");
                }
            }
            Ev::CutLink { a, b, for_ms, .. } => {
                if a < self.plan.nodes && b < self.plan.nodes && a != b {
                    self.cut_links.push((a, b, self.now_ns + for_ms * MS));
                    self.stats.count("fault.link_cut");
                }
            }
            Ev::ClockJump { node, ms, .. } => {
                if (node as usize) < self.offset_ns.len() {
                    self.offset_ns[node as usize] += ms * MS;
                    self.stats.count("fault.clock_jump");
                }
            }
            Ev::Stall { node, for_ms, .. } => {
                if (node as usize) < self.stalled_until_ns.len() {
                    self.stalled_until_ns[node as usize] = self.now_ns + for_ms * MS;
                    self.stats.count("fault.stall");
                }
            }
            Ev::Append { node, data, .. } => {
                if node < self.plan.nodes {
                    self.client_append(node, data);
                }
            }
            Ev::Msg { .. } => {}
        }
    }

    fn client_append(&mut self, node: u64, data: u64) -> bool {
        if self.stalled(node) {
            return false;
        }
        let n = &mut self.nodes[node as usize];
        if n.leader() != Some(node) {
            self.stats.count("append.skipped_not_leader");
            return false;
        }
        self.clock_for(node);
        match block_on(self.nodes[node as usize].append(data, None)) {
            Ok(reqs) => {
                self.stats.count("append.accepted");
                self.appended_any = true;
                self.adapt(1, node);
                self.send_requests(node, reqs);
                true
            }
            Err(_) => false,
        }
    }

    fn tail_append(&mut self, _k: u64) {
        // at the node that leads now (no requirement on which one that is)
        let leaders: Vec<u64> = (0..self.plan.nodes).filter(|i| self.nodes[*i as usize].verif_is_leader()).collect();
        if let Some(l) = leaders.first() {
            let data = self.next_data;
            self.next_data += 1;
            if self.client_append(*l, data) {
                self.tail_data.push((data, self.now_ns));
            }
        }
    }

    fn viol(&mut self, property: &'static str, class: &str, detail: String) {
        self.violations.push(Violation { property, class: class.to_string(), detail: format!("t={}ms: {detail}", self.now_ns / MS) });
    }

    /// Invariants after every event (C27, C28, C29).
    fn check(&mut self) {
        let n = self.plan.nodes as usize;
        let mut minority_commit: Option<Vec<u64>> = None;
        for i in 0..n {
            let is_leader = self.nodes[i].verif_is_leader();
            let term = self.nodes[i].verif_term();
            if is_leader {
                let set = self.leaders_by_term.entry(term).or_default();
                set.insert(i as u64);
                if set.len() > 1 {
                    let who: Vec<u64> = set.iter().copied().collect();
                    self.viol("C27", "two-leaders-in-one-term", format!("nodes {who:?} have both been leader in term {term}"));
                    return;
                }
            }
            // reach probe (diagnostic, no verdict): a node whose term went down
            if term < self.last_term[i] {
                self.stats.count("probe.node_term_decreased");
            }
            self.last_term[i] = term;
            // reach probe (diagnostic, no verdict): a node whose log has a gap in its indices
            if !self.hole_seen[i] {
                let mut idx: Vec<u64> = self.nodes[i].storage.entries.iter().map(|e| e.index).collect();
                idx.sort();
                if idx.windows(2).any(|w| w[1] > w[0] + 1) {
                    self.hole_seen[i] = true;
                    self.stats.count("probe.node_log_has_index_gap");
                }
            }
            // commit index never decreases
            let c = self.nodes[i].storage.commit;
            if c < self.last_commit[i] {
                self.viol("C28", "commit-index-decreased", format!("node {i}: commit index went from {} to {c}", self.last_commit[i]));
                return;
            }
            self.last_commit[i] = c;
            // ... and neither does the commit index the consensus core itself holds and advertises for this node
            let cc = self.nodes[i].verif_local_commit();
            if cc < self.last_core_commit[i] {
                self.viol("C28", "commit-index-decreased", format!("node {i}: the commit index held by the consensus core went from {} to {cc}", self.last_core_commit[i]));
            }
            self.last_core_commit[i] = cc;
            // newly committed entries
            let hist_len = self.nodes[i].storage.committed_history.len();
            for k in self.seen_history[i]..hist_len {
                let (index, eterm, data) = self.nodes[i].storage.committed_history[k];
                // per node: never two different entries at one index
                if let Some((pi, pt, pd)) = self.nodes[i].storage.committed_history[..k].iter().find(|e| e.0 == index) {
                    self.viol("C28", "committed-entry-replaced-on-node", format!("node {i} committed ({pi}, term {pt}, data {pd}) and later ({index}, term {eterm}, data {data}) at the same index"));
                    return;
                }
                match self.committed.get(&index) {
                    Some((t, d, first)) if (*t, *d) != (eterm, data) => {
                        let (t, d, first) = (*t, *d, *first);
                        self.viol("C28", "nodes-commit-different-entries", format!("index {index}: node {first} committed (term {t}, data {d}) but node {i} committed (term {eterm}, data {data})"));
                        return;
                    }
                    Some(_) => {}
                    None => {
                        self.committed.insert(index, (eterm, data, i as u64));
                    }
                }
                if is_leader {
                    self.leader_committed.push((index, eterm, data, term));
                    // fault placement (recording pass only): a leader has just committed an entry that fewer than a
                    // majority of the nodes hold - cut the holders off and let the others elect among themselves
                    let holders: Vec<u64> = (0..n as u64).filter(|j| self.nodes[*j as usize].storage.entries.iter().any(|e| e.index == index && e.term == eterm && e.data == data)).collect();
                    if holders.len() * 2 <= n {
                        self.stats.count("probe.leader_committed_entry_held_by_a_minority");
                        minority_commit = Some(holders);
                    }
                    if eterm != term && !self.ghosts.iter().any(|g| g.starts_with("G5:")) {
                        // G5: a leader commits, by counting replicas, an entry that is not from its own term
                        self.ghosts.push("G5:leader-commits-entry-of-an-earlier-term-by-counting-replicas".to_string());
                        self.stats.count("ghost.G5");
                    }
                }
                self.stats.replicated += 1;
            }
            self.seen_history[i] = hist_len;
            // C29: a node that has just become leader holds everything leaders committed before
            if is_leader && !self.was_leader[i] {
                self.adapt(0, i as u64);
                self.stats.elected = true;
                if self.appended_any {
                    self.stats.leader_changes_after_append += 1;
                }
                for (index, eterm, data, commit_term) in self.leader_committed.clone() {
                    let has = self.nodes[i].storage.entries.iter().any(|e| e.index == index && e.term == eterm && e.data == data);
                    if !has && term <= commit_term {
                        // a candidate of an older (or the same) term that wins late with a delayed vote is a
                        // stale leader in the protocol's own terms: it cannot commit. "Later leader" is read as
                        // "leader of a later term" (leader completeness); the literal-time case is only counted.
                        self.stats.count("observation.stale_term_leader_elected_after_commit");
                        continue;
                    }
                    if !has {
                        let at: Vec<_> = self.nodes[i].storage.entries.iter().filter(|e| e.index == index).map(|e| (e.term, e.data)).collect();
                        self.viol("C29", "new-leader-misses-committed-entry", format!("node {i} became leader of term {term} without entry (index {index}, term {eterm}, data {data}) that a leader had committed; it holds {at:?} at that index"));
                        return;
                    }
                }
            }
            self.was_leader[i] = is_leader;
        }
        if let Some(holders) = minority_commit {
            self.adapt_partition_off(holders);
        }
        // recording pass: when two nodes believe they lead at the same time, offer both a client append
        // and let the network heal soon after (split-brain is where committed entries can diverge)
        let leaders: Vec<u64> = (0..n as u64).filter(|i| self.nodes[*i as usize].verif_is_leader()).collect();
        if leaders.len() >= 2 && !self.split_brain_seen {
            self.split_brain_seen = true;
            for l in leaders {
                self.adapt(2, l);
            }
        } else if leaders.len() < 2 {
            self.split_brain_seen = false;
        }
    }

    /// Bounded liveness at the end of the fault-free tail (C30).
    fn finish(&mut self) {
        if !self.violations.is_empty() || self.plan.settle_ms == 0 || self.cut.is_some() || self.truncated {
            // a run stopped by the step cap did not reach the end of its settle window: liveness is not judged
            return;
        }
        let leaders: Vec<u64> = (0..self.plan.nodes).filter(|i| self.nodes[*i as usize].verif_is_leader()).collect();
        if leaders.is_empty() && self.plan.horizon_ms > 0 {
            let max_term = (0..self.plan.nodes as usize).map(|i| self.nodes[i].verif_term()).max().unwrap_or(0);
            // "keep advancing": at least a quarter of the term timeouts that fit into the settle window ended in a new
            // term (a fixed count of 15 was one short for a configuration with a 6 s term timeout: false alarm, seed 3)
            let advancing = (self.plan.settle_ms / self.plan.term_ms.max(1) / 4).max(3);
            if max_term >= self.term_at_end_of_faults + advancing {
                // G11: from a post-partition state the fixed, staggered election timeouts (never randomised) make the
                // same nodes collide as candidates term after term: candidates answer LeaderMismatch / TermMismatch to
                // each other's vote requests and the terms keep advancing without a winner
                self.ghosts.insert(0, "G11:election-livelock-terms-keep-advancing".to_string());
                self.stats.count("ghost.G11");
            }
        }
        if leaders.len() != 1 {
            self.viol("C30", "no-single-leader-after-faults-stopped", format!("{} ms after the last fault the leaders are {leaders:?}", self.plan.settle_ms));
            return;
        }
        // everything the final leader holds must be committed everywhere by now (in particular entries it
        // inherited from an earlier term, also when nothing new was appended after the election)
        let l = leaders[0] as usize;
        let held: Vec<(u64, u64, u64)> = self.nodes[l].storage.entries.iter().map(|e| (e.index, e.term, e.data)).collect();
        for (index, term, data) in held {
            for i in 0..self.plan.nodes as usize {
                let ok = self.nodes[i].storage.entries.iter().any(|e| e.index == index && e.term == term && e.data == data && e.committed);
                if !ok {
                    self.viol("C30", "leader-entry-not-committed-everywhere", format!("entry (index {index}, term {term}, data {data}) in the log of leader {l} is not committed on node {i} {} ms after the last fault", self.plan.settle_ms));
                    return;
                }
            }
        }
        for (data, at) in self.tail_data.clone() {
            for i in 0..self.plan.nodes as usize {
                let ok = self.nodes[i].storage.entries.iter().any(|e| e.data == data && e.committed);
                if !ok {
                    self.viol("C30", "appended-entry-not-committed-everywhere", format!("entry with data {data} appended at the leader at t={}ms is not committed on node {i} at the end of the run", at / MS));
                    return;
                }
            }
        }
    }

    /// G3: a follower accepts an entry at index i although its entry at i-1 differs from the sender's (G12: is missing).
    fn ghost_g3(&mut self, from: u64, to: u64, before: &[(u64, u64, u64)]) {
        if self.ghosts.iter().any(|g| g.starts_with("G3:")) {
            return;
        }
        let after: Vec<(u64, u64, u64)> = self.nodes[to as usize].storage.entries.iter().map(|e| (e.index, e.term, e.data)).collect();
        let new: Vec<&(u64, u64, u64)> = after.iter().filter(|e| !before.contains(e)).collect();
        let Some(first) = new.iter().map(|e| e.0).min() else { return };
        if first <= 1 {
            return;
        }
        let mine: Vec<(u64, u64)> = after.iter().filter(|e| e.0 == first - 1).map(|e| (e.1, e.2)).collect();
        let theirs: Vec<(u64, u64)> = self.nodes[from as usize].storage.entries.iter().filter(|e| e.index == first - 1).map(|e| (e.term, e.data)).collect();
        if mine.is_empty() {
            // G12: nothing at all at i-1 - the follower's log now has a gap. The shipped code never does this
            // (both branches of validate_log_append require log_index + 1 >= i); it is not part of any recorded
            // finding, so the run goes on and whatever follows is judged.
            if !self.ghosts.iter().any(|g| g.starts_with("G12:")) {
                self.ghosts.push("G12:follower-accepts-entry-leaving-an-index-gap".to_string());
                self.stats.count("ghost.G12");
            }
            return;
        }
        if theirs.is_empty() || !mine.iter().any(|m| theirs.contains(m)) {
            self.ghosts.push("G3:follower-accepts-entry-without-matching-previous-entry".to_string());
            self.stats.count("ghost.G3");
            if self.trace {
                eprintln!("          ghost G3: node {to} accepted index {first} from {from}; its entry at {} is {mine:?}, the sender's is {theirs:?}", first - 1);
            }
        }
    }

    /// G8: when the faults stop, two nodes hold different entries at one index (logs diverged and nothing
    /// in the protocol matches/truncates them by previous entry).
    fn ghost_divergence(&mut self) {
        if self.ghosts.iter().any(|g| g.starts_with("G8:")) {
            return;
        }
        let n = self.plan.nodes as usize;
        for a in 0..n {
            for b in a + 1..n {
                for ea in &self.nodes[a].storage.entries {
                    if self.nodes[b].storage.entries.iter().any(|eb| eb.index == ea.index && (eb.term, eb.data) != (ea.term, ea.data)) {
                        self.ghosts.push("G8:logs-diverged-when-faults-stop".to_string());
                        self.stats.count("ghost.G8");
                        return;
                    }
                }
            }
        }
    }

    pub fn recorded(self) -> Vec<Ev> {
        match self.chooser {
            Chooser::Record { out, .. } => out,
            _ => vec![],
        }
    }
}
