//! The real server, in-process: built from a data directory, driven through its Router.

use crate::cluster::Cluster;
use crate::config::Config;
use crate::db_pool::DbPool;
use crate::server_db::ServerDb;
use axum::Router;
use axum::body::Body;
use axum::http::Request;
use http_body_util::BodyExt;
use serde_json::Value;
use std::sync::Arc;
use tokio::sync::broadcast;
use tower::ServiceExt;

pub(crate) struct Server {
    pub router: Router,
    pub cluster: Cluster,
    pub server_db: ServerDb,
    pub db_pool: DbPool,
    pub config: Config,
    shutdown: broadcast::Sender<()>,
}

pub(crate) struct Resp {
    pub status: u16,
    pub body: Value,
    pub commit_index: Option<u64>,
}

pub(crate) fn init_globals() {
    crate::logger::init(agdb_api::LogLevelFilter::Off);
    crate::password::init(None);
}

pub(crate) fn make_config(data_dir: &str, token_expiry_seconds: u64) -> Config {
    make_config_cluster(data_dir, token_expiry_seconds, "[]")
}

pub(crate) fn make_config_cluster(data_dir: &str, token_expiry_seconds: u64, cluster: &str) -> Config {
    let mut c = crate::config::from_str(&format!(
        "bind: \":::3000\"\naddress: \"http://localhost:3000\"\nbasepath: \"\"\nadmin: admin\nlog_level: OFF\ndata_dir: {data_dir}\npepper_path: \"\"\ntls_certificate: \"\"\ntls_key: \"\"\ntls_root: \"\"\ncluster_token: cluster\ncluster_heartbeat_timeout_ms: 1000\ncluster_term_timeout_ms: 3000\ncluster: {cluster}\ntoken_expiry_seconds: {token_expiry_seconds}\n"
    ))
    .expect("config");
    c.data_dir = data_dir.to_string();
    c.token_expiry_seconds = token_expiry_seconds;
    Arc::new(c)
}

impl Server {
    /// Builds the whole server state from `data_dir` (only durable state survives a restart).
    pub async fn start(data_dir: &str, token_expiry_seconds: u64) -> Result<Server, String> {
        Self::start_with(make_config(data_dir, token_expiry_seconds)).await
    }

    /// Node 0 of a three-node cluster whose peers never answer (the driver plays the leader).
    pub async fn start_follower(data_dir: &str) -> Result<Server, String> {
        Self::start_with(make_config_cluster(data_dir, 3600, "[http://localhost:3000, http://localhost:3001, http://localhost:3002]")).await
    }

    pub async fn start_with(config: Config) -> Result<Server, String> {
        let (shutdown, _) = broadcast::channel::<()>(1);
        let e = |x: crate::server_error::ServerError| x.description;
        let server_db = crate::server_db::new(&config, shutdown.subscribe()).await.map_err(e)?;
        let cluster_log = crate::cluster_log::new(&config).await.map_err(e)?;
        crate::cluster_log::migrate_from_server_db(&server_db, &cluster_log).await.map_err(e)?;
        let db_pool = crate::db_pool::new(config.clone(), &server_db).await.map_err(e)?;
        let cluster = crate::cluster::new(&config, &server_db, &cluster_log, &db_pool).await.map_err(e)?;
        let router = crate::app::app(cluster.clone(), config.clone(), db_pool.clone(), server_db.clone(), shutdown.clone()).map_err(e)?;
        Ok(Server { router, cluster, server_db, db_pool, config, shutdown })
    }

    /// Drops every in-memory structure; background tasks are told to stop.
    pub async fn stop(self) {
        let _ = self.shutdown.send(());
        drop(self);
        for _ in 0..20 {
            tokio::task::yield_now().await;
        }
    }

    pub async fn call(&self, method: &str, path: &str, token: Option<&str>, body: Option<Value>) -> Resp {
        let mut b = Request::builder().method(method).uri(format!("/api/v1{path}"));
        if let Some(t) = token {
            b = b.header("authorization", format!("Bearer {t}"));
        }
        let req = match body {
            Some(v) => b.header("content-type", "application/json").body(Body::from(serde_json::to_vec(&v).unwrap())).unwrap(),
            None => b.body(Body::empty()).unwrap(),
        };
        let resp = self.router.clone().oneshot(req).await.expect("router is infallible");
        let status = resp.status().as_u16();
        let commit_index = resp.headers().get("commit-index").and_then(|h| h.to_str().ok()).and_then(|s| s.parse().ok());
        let bytes = resp.into_body().collect().await.map(|c| c.to_bytes().to_vec()).unwrap_or_default();
        let body = serde_json::from_slice(&bytes).unwrap_or_else(|_| Value::String(String::from_utf8_lossy(&bytes).to_string()));
        Resp { status, body, commit_index }
    }

    pub async fn login(&self, user: &str, password: &str) -> Option<String> {
        let r = self.call("POST", "/user/login", None, Some(serde_json::json!({"username": user, "password": password}))).await;
        if r.status == 200 { r.body.as_str().map(|s| s.to_string()) } else { None }
    }
}

pub(crate) struct Scratch(pub String);

impl Scratch {
    pub fn new(tag: &str, hash: u64) -> Scratch {
        let d = format!("{}/target/tmp/srv-{}-{}-{:016x}", simcore::verif_dir(), tag, std::process::id(), hash);
        let _ = std::fs::remove_dir_all(&d);
        std::fs::create_dir_all(&d).expect("scratch dir");
        Scratch(d)
    }
}

impl Drop for Scratch {
    fn drop(&mut self) {
        if std::env::var("VERIF_KEEP").is_ok() {
            eprintln!("kept {}", self.0);
            return;
        }
        let _ = std::fs::remove_dir_all(&self.0);
    }
}

pub(crate) fn runtime() -> tokio::runtime::Runtime {
    tokio::runtime::Builder::new_current_thread().enable_all().build().expect("runtime")
}
