//! C25 — a server query batch is all-or-nothing and audited exactly.
//! Batches are generated and executed first on a local reference database (agdb's own transaction,
//! decided separately by C13/C03); the concrete queries are then submitted to the real server.

use super::server::*;
use agdb::{DbMemory, QueryId, QueryIds, QueryResult, QueryType};
use dbsim::dbexec::{self, Shadow};
use dbsim::dbprog::{self, Op, Profile};
use serde::{Deserialize, Serialize};
use serde_json::{Value, json};
use simcore::harness::*;
use simcore::{Fnv, Rng};

#[derive(Clone, Debug, Serialize, Deserialize, PartialEq)]
pub(crate) enum Step {
    /// a batch through exec_mut by user (0 = owner, 1 = second user with write role)
    /// `tail`: 0 = nothing appended; 1 = read-only queries appended after the last mutating query;
    /// 2 = a read-only query that fails (unknown alias) appended after the last mutating query;
    /// 3 = a search from a result reference that does not exist appended
    Batch {
        user: u64,
        ops: Vec<Op>,
        use_result_refs: bool,
        #[serde(default)]
        tail: u64,
    },
    /// a batch through the read-only exec endpoint that contains a mutating query (must be refused)
    MutThroughExec { ops: Vec<Op> },
    /// a read-only batch through exec_mut (allowed, not audited)
    ReadBatch,
    /// a batch whose last query refers to a result index that does not exist
    BadResultRef { ops: Vec<Op> },
    Restart,
}

#[derive(Clone, Debug, Serialize, Deserialize)]
pub(crate) struct Plan {
    pub db_kind: String,
    pub steps: Vec<Step>,
}

pub(crate) fn generate(seed: u64, run: u64, tier: Tier) -> Plan {
    let mut rng = Rng::derive(seed, run, 25);
    let mut cfg = dbprog::default_cfg(&mut rng, Profile::Small);
    // JSON cannot carry NaN/infinite floats, so the HTTP API cannot either: plain values only
    cfg.exotic_values = false;
    cfg.invalid = true;
    cfg.txn = false;
    cfg.w[14] = 0;
    let n_steps = match tier {
        Tier::Quick => rng.range(3, 9),
        Tier::Thorough => rng.range(4, 20),
    };
    let mut g = dbprog::Gen::new(&mut rng, cfg);
    let mut steps = vec![];
    // seed content
    steps.push(Step::Batch { user: 0, ops: vec![Op::InsertNodes { count: 2, aliases: vec!["al0".into()], values: dbprog::Values::Single(g.kvs(2)) }], use_result_refs: false, tail: 0 });
    g.slots = 2;
    for _ in 0..n_steps {
        let n_ops = g.rng.range(1, 5);
        let ops: Vec<Op> = (0..n_ops).map(|_| g.op(false)).collect();
        let s = match g.rng.below(12) {
            0 => Step::Restart,
            1 => Step::MutThroughExec { ops },
            2 => Step::ReadBatch,
            3 => Step::BadResultRef { ops },
            _ => Step::Batch { user: g.rng.below(2), ops, use_result_refs: g.rng.chance(1, 2), tail: if g.rng.chance(1, 2) { 0 } else { g.rng.range(1, 3) } },
        };
        steps.push(s);
    }
    let db_kind = g.rng.pick(&["mapped", "file", "memory"]).to_string();
    Plan { db_kind, steps }
}

struct Expected {
    queries: Vec<QueryType>,
    results: Vec<Result<QueryResult, String>>,
    ok: bool,
}

/// Executes the batch on the reference (one transaction) and returns the concrete queries it consisted of.
fn reference_batch(reference: &mut DbMemory, sh: &mut Shadow, ops: &[Op]) -> Expected {
    reference_batch_tail(reference, sh, ops, false)
}

/// `fail_at_end`: the batch ends with a query that fails, so the reference aborts after all `ops` ran.
fn reference_batch_tail(reference: &mut DbMemory, sh: &mut Shadow, ops: &[Op], fail_at_end: bool) -> Expected {
    dbexec::RECORD.with(|r| *r.borrow_mut() = Some(vec![]));
    let o = dbexec::step(reference, sh, &Op::Txn { ops: ops.to_vec(), fail_after: if fail_at_end { Some(ops.len() as u64) } else { None } });
    let rec = dbexec::RECORD.with(|r| r.borrow_mut().take()).unwrap_or_default();
    let (queries, results): (Vec<_>, Vec<_>) = rec.into_iter().unzip();
    Expected { queries, results, ok: o.ok }
}

/// Rewrites concrete ids into ":k" result references where result k has exactly one element with that id.
fn with_result_refs(queries: &[QueryType], results: &[Result<QueryResult, String>], rng_state: u64) -> Vec<QueryType> {
    let mut out = queries.to_vec();
    let single: Vec<Option<i64>> = results.iter().map(|r| r.as_ref().ok().filter(|r| r.elements.len() == 1).map(|r| r.elements[0].id.0)).collect();
    let rewrite_ids = |ids: &mut QueryIds, j: usize, salt: u64| {
        if let QueryIds::Ids(v) = ids {
            for (n, id) in v.iter_mut().enumerate() {
                if let QueryId::Id(x) = id {
                    for k in 0..j {
                        if single[k] == Some(x.0) && (rng_state.wrapping_mul(31).wrapping_add(salt + n as u64 + k as u64)) % 2 == 0 {
                            *id = QueryId::Alias(format!(":{k}"));
                            break;
                        }
                    }
                }
            }
        }
    };
    for (j, q) in out.iter_mut().enumerate() {
        match q {
            QueryType::InsertEdges(q) => {
                rewrite_ids(&mut q.from, j, 1);
                rewrite_ids(&mut q.to, j, 2);
            }
            QueryType::InsertValues(q) => rewrite_ids(&mut q.ids, j, 3),
            QueryType::InsertAlias(q) => rewrite_ids(&mut q.ids, j, 4),
            QueryType::Remove(q) => rewrite_ids(&mut q.0, j, 5),
            QueryType::RemoveValues(q) => rewrite_ids(&mut q.0.ids, j, 6),
            _ => {}
        }
    }
    out
}

fn read_batch() -> Vec<QueryType> {
    use agdb::*;
    vec![
        QueryType::SelectNodeCount(SelectNodeCountQuery {}),
        QueryType::Search(dbexec::elements_search(dbprog::Kind::All, 0, 0)),
        QueryType::SelectValues(SelectValuesQuery { keys: vec![], ids: QueryIds::Search(dbexec::elements_search(dbprog::Kind::All, 0, 0)) }),
        QueryType::SelectAllAliases(SelectAllAliasesQuery {}),
        QueryType::SelectIndexes(SelectIndexesQuery {}),
    ]
}

fn reference_state(reference: &DbMemory) -> Value {
    use agdb::QueryType::*;
    let mut out = vec![];
    for q in read_batch() {
        let r = match &q {
            SelectNodeCount(q) => reference.exec(q),
            Search(q) => reference.exec(q),
            SelectValues(q) => reference.exec(q),
            SelectAllAliases(q) => reference.exec(q),
            SelectIndexes(q) => reference.exec(q),
            _ => unreachable!(),
        };
        out.push(match r {
            Ok(r) => serde_json::to_value(&r).unwrap(),
            Err(e) => json!({"error": e.description}),
        });
    }
    Value::Array(out)
}

struct Ctx {
    server: Server,
    tokens: [String; 2],
    admin: String,
}

const USERS: [&str; 2] = ["user_one", "user_two"];

async fn login_all(server: Server) -> Result<Ctx, String> {
    let admin = server.login("admin", "admin").await.ok_or("admin login failed")?;
    let t0 = server.login(USERS[0], "password123").await.ok_or("user_one login failed")?;
    let t1 = server.login(USERS[1], "password123").await.ok_or("user_two login failed")?;
    Ok(Ctx { server, tokens: [t0, t1], admin })
}

async fn setup(dir: &str, kind: &str) -> Result<Ctx, String> {
    let server = Server::start(dir, 3600).await?;
    let admin = server.login("admin", "admin").await.ok_or("admin login failed")?;
    for u in USERS {
        let r = server.call("POST", &format!("/admin/user/{u}/add"), Some(&admin), Some(json!({"password": "password123"}))).await;
        if r.status != 201 {
            return Err(format!("user add {u}: {} {}", r.status, r.body));
        }
    }
    let t0 = server.login(USERS[0], "password123").await.ok_or("user_one login failed")?;
    let r = server.call("POST", &format!("/db/{}/d/add?db_type={kind}", USERS[0]), Some(&t0), None).await;
    if r.status != 201 {
        return Err(format!("db add: {} {}", r.status, r.body));
    }
    let r = server.call("PUT", &format!("/db/{}/d/user/{}/add?db_role=write", USERS[0], USERS[1]), Some(&t0), None).await;
    if r.status != 201 {
        return Err(format!("db user add: {} {}", r.status, r.body));
    }
    login_all(server).await
}

fn strip_timestamps(audit: &Value) -> Vec<(String, Value)> {
    audit.as_array().map(|a| a.iter().map(|e| (e["username"].as_str().unwrap_or("").to_string(), e["query"].clone())).collect()).unwrap_or_default()
}

fn is_mutating(q: &QueryType) -> bool {
    !matches!(q, QueryType::Search(_) | QueryType::SelectAliases(_) | QueryType::SelectAllAliases(_) | QueryType::SelectEdgeCount(_) | QueryType::SelectIndexes(_) | QueryType::SelectKeys(_) | QueryType::SelectKeyCount(_) | QueryType::SelectNodeCount(_) | QueryType::SelectValues(_))
}

fn run(plan: &Plan, dir: &str, rep: &mut RunReport) -> Result<Option<(String, String)>, String> {
    // a restart ends the whole runtime: every task of the old server (and whatever it still holds) is gone
    let mut rt = runtime();
    let mut ctx = rt.block_on(setup(dir, &plan.db_kind))?;
    let mut reference = DbMemory::new("/sim/c25-reference-never-on-disk").map_err(|e| e.description)?;
    let mut sh = Shadow::default();
    let mut expected_audit: Vec<(String, Value)> = vec![];
    let path = format!("/db/{}/d", USERS[0]);
    let mut applied = 0u64;
    let mut failed = 0u64;
    for (n, step) in plan.steps.iter().enumerate() {
        let what;
        match step {
            Step::Restart => {
                if plan.db_kind == "memory" {
                    continue; // an in-memory database does not survive a restart by design
                }
                rt.block_on(ctx.server.stop());
                drop(rt);
                rt = runtime();
                let server = rt.block_on(Server::start(dir, 3600))?;
                ctx = rt.block_on(login_all(server))?;
                rep.count("fault.server_restart", 1);
                what = format!("step {n} restart");
            }
            Step::ReadBatch => {
                let qs = serde_json::to_value(read_batch()).unwrap();
                let r = rt.block_on(ctx.server.call("POST", &format!("{path}/exec_mut"), Some(&ctx.tokens[0]), Some(qs)));
                if r.status != 200 {
                    return Ok(Some(("read-only-batch-refused".into(), format!("step {n}: read-only batch through exec_mut: {} {}", r.status, r.body))));
                }
                what = format!("step {n} read-only batch");
            }
            Step::MutThroughExec { ops } => {
                // what the batch would be, without applying it to the reference
                let mut scratch_ref = DbMemory::new("/sim/c25-scratch").map_err(|e| e.description)?;
                let _ = &mut scratch_ref;
                let e = {
                    // build concrete queries against a throw-away copy of the shadow (ids may be off: the batch must be refused anyway)
                    let mut s2 = sh.clone();
                    let mut tmp = DbMemory::new("/sim/c25-tmp").map_err(|e| e.description)?;
                    reference_batch(&mut tmp, &mut s2, ops)
                };
                if !e.queries.iter().any(is_mutating) {
                    continue;
                }
                let r = rt.block_on(ctx.server.call("POST", &format!("{path}/exec"), Some(&ctx.tokens[0]), Some(serde_json::to_value(&e.queries).unwrap())));
                rep.count("fault.mutating_batch_through_read_endpoint", 1);
                if r.status == 200 {
                    return Ok(Some(("mutation-through-read-endpoint".into(), format!("step {n}: the read-only exec endpoint accepted a batch with mutating queries"))));
                }
                what = format!("step {n} mutating batch through the read-only endpoint (refused {})", r.status);
            }
            Step::BadResultRef { ops } => {
                // the reference runs the same queries and aborts at the same place (behind the last one), so that what
                // a rollback may legitimately leave different (order of an element's properties and edges, which freed
                // id is handed out next) is the same on both sides
                let e = reference_batch_tail(&mut reference, &mut sh, ops, true);
                let mut qs = e.queries;
                qs.push(QueryType::Remove(agdb::RemoveQuery(QueryIds::Ids(vec![QueryId::Alias(":57".into())]))));
                let r = rt.block_on(ctx.server.call("POST", &format!("{path}/exec_mut"), Some(&ctx.tokens[0]), Some(serde_json::to_value(&qs).unwrap())));
                rep.count("fault.abort.result_reference_out_of_bounds", 1);
                failed += 1;
                if r.status == 200 {
                    return Ok(Some(("failing-batch-accepted".into(), format!("step {n}: a batch referring to result ':57' was accepted"))));
                }
                what = format!("step {n} batch with an out-of-bounds result reference (refused {})", r.status);
            }
            Step::Batch { user, ops, use_result_refs, tail } => {
                let mut e = reference_batch_tail(&mut reference, &mut sh, ops, *tail >= 2);
                if e.queries.is_empty() {
                    continue;
                }
                let mut send = if *use_result_refs { with_result_refs(&e.queries, &e.results, n as u64 + 7) } else { e.queries.clone() };
                // read-only queries behind the last mutating one are part of the same all-or-nothing batch
                if e.results.iter().all(|r| r.is_ok()) {
                    use agdb::*;
                    match *tail {
                        1 => {
                            let tail_q = vec![QueryType::SelectNodeCount(SelectNodeCountQuery {}), QueryType::SelectAllAliases(SelectAllAliasesQuery {})];
                            e.results.push(reference.exec(&SelectNodeCountQuery {}).map_err(|e| e.description));
                            e.results.push(reference.exec(&SelectAllAliasesQuery {}).map_err(|e| e.description));
                            e.queries.extend(tail_q.clone());
                            send.extend(tail_q);
                            rep.count("batch.read_only_tail", 1);
                        }
                        2 => {
                            send.push(QueryType::SelectNodeCount(SelectNodeCountQuery {}));
                            send.push(QueryType::SelectValues(SelectValuesQuery { keys: vec![], ids: QueryIds::Ids(vec![QueryId::Alias("no-such-alias".into())]) }));
                            rep.count("fault.abort.failing_read_after_last_mutation", 1);
                        }
                        3 => {
                            send.push(QueryType::SelectValues(SelectValuesQuery { keys: vec![], ids: QueryIds::Ids(vec![QueryId::Alias(":41".into())]) }));
                            rep.count("fault.abort.bad_result_reference_in_read_after_last_mutation", 1);
                        }
                        _ => {}
                    }
                }
                let uname = USERS[*user as usize];
                let r = rt.block_on(ctx.server.call("POST", &format!("{path}/exec_mut"), Some(&ctx.tokens[*user as usize]), Some(serde_json::to_value(&send).unwrap())));
                what = format!("step {n} batch of {} queries by {uname} ({})", send.len(), if e.ok { "valid" } else { "contains a failing query" });
                if e.ok {
                    applied += 1;
                    if r.status != 200 {
                        return Ok(Some(("valid-batch-refused".into(), format!("{what}: {} {}", r.status, r.body))));
                    }
                    let want: Vec<Value> = e.results.iter().map(|x| serde_json::to_value(x.as_ref().unwrap()).unwrap()).collect();
                    // results that list elements carry a node's first-edge fields and property order, which may
                    // differ after an earlier refused batch (see `normalise`): compared in normalised form
                    if normalise(r.body.clone()) != normalise(Value::Array(want.clone())) {
                        return Ok(Some(("batch-results-differ".into(), format!("{what}: server {} vs reference {}", r.body, Value::Array(want)))));
                    }
                    for q in e.queries.iter().filter(|q| is_mutating(q)) {
                        expected_audit.push((uname.to_string(), serde_json::to_value(q).unwrap()));
                    }
                } else {
                    failed += 1;
                    rep.count("fault.abort.failing_query_in_batch", 1);
                    if r.status == 200 {
                        return Ok(Some(("failing-batch-accepted".into(), format!("{what}: the server answered 200 {}", r.body))));
                    }
                }
            }
        }
        // state: the same read batch on the server and on the reference
        let r = rt.block_on(ctx.server.call("POST", &format!("{path}/exec"), Some(&ctx.tokens[0]), Some(serde_json::to_value(read_batch()).unwrap())));
        if r.status != 200 {
            return Ok(Some(("unreadable".into(), format!("after {what}: read batch failed: {} {}", r.status, r.body))));
        }
        // a refused batch is rolled back logically: the order of an element's properties may differ afterwards
        // (the database's documented rollback behaviour, C13), so property lists are compared as sets
        let want = normalise(reference_state(&reference));
        let got_state = normalise(r.body.clone());
        if got_state != want {
            let class = if what.contains("failing") || what.contains("refused") { "partial-batch-visible" } else { "state-differs-from-reference" };
            return Ok(Some((class.into(), format!("after {what}: server {} vs reference {}", clip(&got_state.to_string()), clip(&want.to_string())))));
        }
        // audit: exactly the mutating queries of the applied batches, in order, with the submitting user
        let a = rt.block_on(ctx.server.call("GET", &format!("{path}/audit"), Some(&ctx.tokens[0]), None));
        if a.status != 200 {
            return Ok(Some(("audit-unreadable".into(), format!("after {what}: audit: {} {}", a.status, a.body))));
        }
        let got = strip_timestamps(&a.body);
        if got != expected_audit {
            let d = first_diff(&got, &expected_audit);
            return Ok(Some(("audit-differs".into(), format!("after {what}: audit has {} entries, expected {}; first difference: {d}", got.len(), expected_audit.len()))));
        }
        rep.evals += 1;
    }
    let _ = ctx.admin;
    rt.block_on(ctx.server.stop());
    drop(rt);
    if applied > 0 && failed > 0 {
        rep.nontrivial = 1;
    }
    Ok(None)
}

fn normalise(mut v: Value) -> Value {
    fn walk(v: &mut Value) {
        match v {
            Value::Object(m) => {
                if let Some(Value::Array(vals)) = m.get_mut("values") {
                    vals.sort_by_key(|x| x.to_string());
                }
                // for a node, `from`/`to` report its most recently connected edge: after a rollback the
                // order of edges among a node's connections may differ as well
                if m.get("id").and_then(|i| i.as_i64()).map(|i| i > 0).unwrap_or(false) {
                    m.insert("from".into(), json!(0));
                    m.insert("to".into(), json!(0));
                }
                for (_, x) in m.iter_mut() {
                    walk(x);
                }
            }
            Value::Array(a) => a.iter_mut().for_each(walk),
            _ => {}
        }
    }
    walk(&mut v);
    v
}

fn clip(s: &str) -> String {
    if s.len() > 500 { format!("{}...", s.chars().take(500).collect::<String>()) } else { s.to_string() }
}

fn first_diff(a: &[(String, Value)], b: &[(String, Value)]) -> String {
    for i in 0..a.len().max(b.len()) {
        if a.get(i) != b.get(i) {
            return format!("entry {i}: audit {:?} vs expected {:?}", a.get(i), b.get(i));
        }
    }
    "none".into()
}

/// A throw-away copy of the reference (replaying is cheaper than cloning: re-run is not possible, so rebuild from a dump is overkill) —
/// the dry batches only need plausible concrete queries, so they are built on an empty database with the current slot table.
pub(crate) fn exec(plan: &Plan, trials: &mut Trials) -> RunReport {
    let mut rep = RunReport::default();
    let mut h = Fnv::new();
    h.str(&serde_json::to_string(plan).unwrap());
    rep.prog_hash = h.get();
    let _ = trials.begin();
    let dir = Scratch::new("c25", rep.prog_hash);
    let mut inner = RunReport::default();
    let r = catch(|| run(plan, &dir.0, &mut inner));
    rep.evals = inner.evals;
    rep.nontrivial = inner.nontrivial;
    rep.counters = inner.counters;
    rep.log_hash = rep.evals ^ rep.prog_hash.rotate_left(7);
    match r {
        Caught::Ok(Ok(None)) => {}
        Caught::Ok(Ok(Some((class, detail)))) => rep.viols.push(Viol { property: "C25".into(), class, detail, trial: 0 }),
        Caught::Ok(Err(e)) => rep.viols.push(Viol { property: "HARNESS".into(), class: "setup".into(), detail: e, trial: 0 }),
        Caught::Panic(p) => rep.viols.push(Viol { property: "C25".into(), class: panic_class(&p), detail: p, trial: 0 }),
        Caught::Budget => {}
    }
    rep
}
