//! C24 — the server enforces authentication and per-database permissions.
//! Multi-user request histories against the in-process server, judged by a permission model
//! built from the documented table (server reference): owner / db role read-write-admin / server admin.
//! Faults: clock jumps past (and back before) token expiry through the H5 hook, server restarts.

use super::server::*;
use serde::{Deserialize, Serialize};
use serde_json::{Value, json};
use simcore::harness::*;
use simcore::{Fnv, Rng};
use std::collections::{BTreeMap, BTreeSet};

const NAMES: [&str; 4] = ["admin", "user_aaa", "user_bbb", "user_ccc"];
const DBS: [&str; 3] = ["db_x", "db_y", "db_z"];
const EXPIRY: i64 = 1050;

#[derive(Clone, Copy, Debug, Serialize, Deserialize, PartialEq)]
pub(crate) enum Tok {
    /// the k-th session opened in this history (may meanwhile be logged out or expired)
    Session(u64),
    Garbage,
    None,
}

#[derive(Clone, Debug, Serialize, Deserialize, PartialEq)]
pub(crate) enum Req {
    AddUser { by: Tok, user: u64 },
    Login { user: u64, good_password: bool },
    Logout { by: Tok, all: bool },
    DbAdd { by: Tok, owner: u64, db: u64 },
    DbDelete { by: Tok, owner: u64, db: u64 },
    DbCopy { by: Tok, owner: u64, db: u64, new_db: u64 },
    DbUserAdd { by: Tok, owner: u64, db: u64, user: u64, role: u64 },
    DbUserRemove { by: Tok, owner: u64, db: u64, user: u64 },
    Exec { by: Tok, owner: u64, db: u64 },
    ExecMut { by: Tok, owner: u64, db: u64 },
    ExecMutReadOnly { by: Tok, owner: u64, db: u64 },
    Optimize { by: Tok, owner: u64, db: u64 },
    Backup { by: Tok, owner: u64, db: u64 },
    Audit { by: Tok, owner: u64, db: u64 },
    DbUserList { by: Tok, owner: u64, db: u64 },
    DbList { by: Tok },
    AdminDbList { by: Tok },
    AdminUserList { by: Tok },
    AdminExecMut { by: Tok, owner: u64, db: u64 },
    ClockJump { seconds: i64 },
    Restart,
}

#[derive(Clone, Debug, Serialize, Deserialize)]
pub(crate) struct Plan {
    pub reqs: Vec<Req>,
}

// roles: 1 read, 2 write, 3 admin
#[derive(Clone, Debug, Default, PartialEq)]
struct Db {
    roles: BTreeMap<u64, u64>,
    nodes: u64,
}

#[derive(Clone, Debug)]
struct Sess {
    user: u64,
    expires_at: i64,
    alive: bool,
}

#[derive(Clone, Debug, Default)]
struct Model {
    users: BTreeSet<u64>,
    sessions: Vec<Sess>,
    dbs: BTreeMap<(u64, u64), Db>,
    now: i64,
}

#[derive(Debug, PartialEq)]
enum Expect {
    Allow,
    Deny,
}

impl Model {
    fn actor(&self, t: Tok) -> Option<u64> {
        match t {
            Tok::Session(k) => self.sessions.get(k as usize).filter(|s| s.alive && s.expires_at >= self.now && self.users.contains(&s.user)).map(|s| s.user),
            _ => None,
        }
    }
    fn role(&self, user: u64, owner: u64, db: u64) -> u64 {
        self.dbs.get(&(owner, db)).and_then(|d| d.roles.get(&user).copied()).unwrap_or(0)
    }

    /// Judges the request and, if it is allowed, applies its effect.
    fn apply(&mut self, r: &Req) -> Expect {
        use Expect::*;
        match r {
            Req::AddUser { by, user } => {
                if self.actor(*by) == Some(0) && !self.users.contains(user) {
                    self.users.insert(*user);
                    Allow
                } else {
                    Deny
                }
            }
            Req::Login { user, good_password } => {
                if self.users.contains(user) && *good_password {
                    self.sessions.push(Sess { user: *user, expires_at: self.now + EXPIRY, alive: true });
                    Allow
                } else {
                    Deny
                }
            }
            Req::Logout { by, all } => match self.actor(*by) {
                Some(u) => {
                    if *all {
                        for s in self.sessions.iter_mut().filter(|s| s.user == u) {
                            s.alive = false;
                        }
                    } else if let Tok::Session(k) = by {
                        self.sessions[*k as usize].alive = false;
                    }
                    Allow
                }
                None => Deny,
            },
            Req::DbAdd { by, owner, db } => {
                if self.actor(*by) == Some(*owner) && !self.dbs.contains_key(&(*owner, *db)) {
                    self.dbs.insert((*owner, *db), Db { roles: [(*owner, 3)].into_iter().collect(), nodes: 0 });
                    Allow
                } else {
                    Deny
                }
            }
            Req::DbDelete { by, owner, db } => {
                if self.actor(*by) == Some(*owner) && self.dbs.contains_key(&(*owner, *db)) {
                    self.dbs.remove(&(*owner, *db));
                    Allow
                } else {
                    Deny
                }
            }
            Req::DbCopy { by, owner, db, new_db } => match self.actor(*by) {
                Some(u) if self.role(u, *owner, *db) >= 1 && !self.dbs.contains_key(&(u, *new_db)) => {
                    let nodes = self.dbs[&(*owner, *db)].nodes;
                    self.dbs.insert((u, *new_db), Db { roles: [(u, 3)].into_iter().collect(), nodes });
                    Allow
                }
                _ => Deny,
            },
            Req::DbUserAdd { by, owner, db, user, role } => match self.actor(*by) {
                Some(u) if self.role(u, *owner, *db) == 3 && user != owner && self.users.contains(user) => {
                    self.dbs.get_mut(&(*owner, *db)).unwrap().roles.insert(*user, *role);
                    Allow
                }
                _ => Deny,
            },
            Req::DbUserRemove { by, owner, db, user } => match self.actor(*by) {
                Some(u) if user != owner && self.role(*user, *owner, *db) >= 1 && (u == *user || self.role(u, *owner, *db) == 3) => {
                    self.dbs.get_mut(&(*owner, *db)).unwrap().roles.remove(user);
                    Allow
                }
                _ => Deny,
            },
            Req::Exec { by, owner, db } | Req::Audit { by, owner, db } | Req::DbUserList { by, owner, db } => match self.actor(*by) {
                Some(u) if self.role(u, *owner, *db) >= 1 => Allow,
                _ => Deny,
            },
            Req::ExecMut { by, owner, db } => match self.actor(*by) {
                Some(u) if self.role(u, *owner, *db) >= 2 => {
                    self.dbs.get_mut(&(*owner, *db)).unwrap().nodes += 1;
                    Allow
                }
                _ => Deny,
            },
            Req::ExecMutReadOnly { by, owner, db } | Req::Optimize { by, owner, db } => match self.actor(*by) {
                Some(u) if self.role(u, *owner, *db) >= 2 => Allow,
                _ => Deny,
            },
            Req::Backup { by, owner, db } => match self.actor(*by) {
                Some(u) if self.role(u, *owner, *db) == 3 => Allow,
                _ => Deny,
            },
            Req::DbList { by } => {
                if self.actor(*by).is_some() { Allow } else { Deny }
            }
            Req::AdminDbList { by } | Req::AdminUserList { by } => {
                if self.actor(*by) == Some(0) { Allow } else { Deny }
            }
            Req::AdminExecMut { by, owner, db } => {
                if self.actor(*by) == Some(0) && self.dbs.contains_key(&(*owner, *db)) {
                    self.dbs.get_mut(&(*owner, *db)).unwrap().nodes += 1;
                    Allow
                } else {
                    Deny
                }
            }
            Req::ClockJump { seconds } => {
                self.now += seconds;
                Allow
            }
            Req::Restart => {
                // the server drops expired tokens for good when it starts
                let now = self.now;
                for s in self.sessions.iter_mut() {
                    if s.expires_at < now {
                        s.alive = false;
                    }
                }
                Allow
            }
        }
    }

    fn observable(&self) -> Value {
        let users: Vec<&str> = self.users.iter().map(|u| NAMES[*u as usize]).collect();
        let mut dbs = serde_json::Map::new();
        for ((o, d), db) in &self.dbs {
            let mut roles: Vec<String> = db.roles.iter().map(|(u, r)| format!("{}:{}", NAMES[*u as usize], ["", "read", "write", "admin"][*r as usize])).collect();
            roles.sort();
            dbs.insert(format!("{}/{}", NAMES[*o as usize], DBS[*d as usize]), json!({"users": roles, "nodes": db.nodes}));
        }
        json!({"users": users, "dbs": dbs})
    }
}

pub(crate) fn generate(seed: u64, run: u64, tier: Tier) -> Plan {
    let mut rng = Rng::derive(seed, run, 24);
    let n = match tier {
        Tier::Quick => rng.range(12, 45),
        Tier::Thorough => rng.range(20, 120),
    };
    let mut m = Model::default();
    m.users.insert(0);
    let mut reqs = vec![];
    let mut push = |m: &mut Model, r: Req, reqs: &mut Vec<Req>| {
        m.apply(&r);
        reqs.push(r);
    };
    // a working set: admin session, two users, one database with a reader
    push(&mut m, Req::Login { user: 0, good_password: true }, &mut reqs);
    for u in 1..=2 {
        push(&mut m, Req::AddUser { by: Tok::Session(0), user: u }, &mut reqs);
        push(&mut m, Req::Login { user: u, good_password: true }, &mut reqs);
    }
    push(&mut m, Req::DbAdd { by: Tok::Session(1), owner: 1, db: 0 }, &mut reqs);
    let hostile = rng.range(15, 45);
    while (reqs.len() as u64) < n {
        // the caller: usually a live session, sometimes a dead / expired / garbage / missing token
        let tok = |rng: &mut Rng, m: &Model| -> Tok {
            if m.sessions.is_empty() || rng.chance(1, 12) {
                return if rng.chance(1, 2) { Tok::Garbage } else { Tok::None };
            }
            Tok::Session(rng.below(m.sessions.len() as u64))
        };
        let by = tok(&mut rng, &m);
        let dbs: Vec<(u64, u64)> = m.dbs.keys().copied().collect();
        // target database: usually an existing one
        let (owner, db) = if !dbs.is_empty() && !rng.chance(1, 10) { *rng.pick(&dbs) } else { (rng.below(4), rng.below(3)) };
        let actor = m.actor(by);
        let span = if rng.below(100) < hostile { 24 } else { 20 };
        let r = match rng.below(span) {
            0 => Req::AddUser { by, user: rng.range(1, 3) },
            1 | 2 => Req::Login { user: rng.below(4), good_password: !rng.chance(1, 5) },
            3 => Req::Logout { by, all: rng.chance(1, 3) },
            4 => Req::DbAdd { by, owner: actor.filter(|_| !rng.chance(1, 4)).unwrap_or(rng.below(4)), db: rng.below(3) },
            5 => Req::DbDelete { by, owner, db },
            6 => Req::DbCopy { by, owner, db, new_db: rng.below(3) },
            7 | 8 => Req::DbUserAdd { by, owner, db, user: rng.below(4), role: rng.range(1, 3) },
            9 => {
                let members: Vec<u64> = m.dbs.get(&(owner, db)).map(|d| d.roles.keys().copied().filter(|u| *u != owner).collect()).unwrap_or_default();
                if members.is_empty() { Req::DbList { by } } else { Req::DbUserRemove { by, owner, db, user: *rng.pick(&members) } }
            }
            10 | 11 => Req::Exec { by, owner, db },
            12 | 13 | 14 => Req::ExecMut { by, owner, db },
            15 => Req::ExecMutReadOnly { by, owner, db },
            16 => rng.pick(&[Req::Optimize { by, owner, db }, Req::Backup { by, owner, db }, Req::Audit { by, owner, db }, Req::DbUserList { by, owner, db }]).clone(),
            17 => rng.pick(&[Req::AdminDbList { by }, Req::AdminUserList { by }, Req::AdminExecMut { by, owner, db }, Req::DbList { by }]).clone(),
            18 => Req::ClockJump { seconds: *rng.pick(&[100, 600, 1100, 2000, -100, -600, -1100]) },
            19 => Req::Restart,
            // hostile extras: a mutation right after the caller lost the right to do it
            20 => Req::ExecMut { by, owner, db },
            21 => Req::AdminExecMut { by, owner, db },
            22 => Req::DbDelete { by, owner, db },
            _ => Req::DbUserAdd { by, owner, db, user: rng.below(4), role: 3 },
        };
        push(&mut m, r, &mut reqs);
    }
    Plan { reqs }
}

struct Live {
    rt: tokio::runtime::Runtime,
    server: Option<Server>,
    tokens: Vec<String>,
    admin_probe: Option<String>,
    offset: i64,
}

fn pw(user: u64) -> String {
    format!("password-{}", NAMES[user as usize])
}

impl Live {
    fn call(&self, method: &str, path: &str, token: Option<&str>, body: Option<Value>) -> Resp {
        self.rt.block_on(self.server.as_ref().unwrap().call(method, path, token, body))
    }

    fn token(&self, t: Tok) -> Option<String> {
        match t {
            Tok::Session(k) => self.tokens.get(k as usize).cloned(),
            Tok::Garbage => Some("00000000-dead-beef-0000-000000000000".to_string()),
            Tok::None => None,
        }
    }

    /// Observable server state, read with a probe session of the admin that is not part of the history.
    fn observe(&mut self) -> Result<Value, String> {
        for attempt in 0..2 {
            if self.admin_probe.is_none() {
                let s = self.server.as_ref().unwrap();
                self.admin_probe = self.rt.block_on(s.login("admin", "admin"));
            }
            let t = self.admin_probe.clone().ok_or("probe login failed")?;
            let users = self.call("GET", "/admin/user/list", Some(&t), None);
            if users.status == 401 && attempt == 0 {
                self.admin_probe = None; // the probe session expired by a clock jump
                continue;
            }
            let mut names: Vec<String> = users.body.as_array().map(|a| a.iter().filter_map(|u| u["username"].as_str().map(|s| s.to_string())).collect()).unwrap_or_default();
            names.sort();
            let dbl = self.call("GET", "/admin/db/list", Some(&t), None);
            let mut dbs = serde_json::Map::new();
            let mut full: Vec<String> = dbl.body.as_array().map(|a| a.iter().filter_map(|d| Some(format!("{}/{}", d["owner"].as_str()?, d["db"].as_str()?))).collect()).unwrap_or_default();
            full.sort();
            for f in full {
                let ul = self.call("GET", &format!("/admin/db/{f}/user/list"), Some(&t), None);
                let mut roles: Vec<String> = ul.body.as_array().map(|a| a.iter().map(|u| format!("{}:{}", u["username"].as_str().unwrap_or(""), u["role"].as_str().unwrap_or(""))).collect()).unwrap_or_default();
                roles.sort();
                let nc = self.call("POST", &format!("/admin/db/{f}/exec"), Some(&t), Some(json!([{"SelectNodeCount": {}}])));
                dbs.insert(f, json!({"users": roles, "nodes": nc.body[0]["result"]}));
            }
            let mut names_sorted = names;
            names_sorted.sort_by_key(|n| NAMES.iter().position(|x| x == n).unwrap_or(9));
            return Ok(json!({"users": names_sorted, "dbs": dbs}));
        }
        Err("probe could not authenticate".into())
    }
}

fn run(plan: &Plan, dir: &str, rep: &mut RunReport) -> Result<Option<(String, String)>, String> {
    crate::verif_hooks::set_clock_offset(0);
    let rt = runtime();
    let server = rt.block_on(Server::start(dir, EXPIRY as u64))?;
    let mut live = Live { rt, server: Some(server), tokens: vec![], admin_probe: None, offset: 0 };
    let mut m = Model::default();
    m.users.insert(0);
    let mut allowed_mut = 0u64;
    let mut denied_mut = 0u64;
    for (n, r) in plan.reqs.iter().enumerate() {
        let before = m.clone();
        let expect = m.apply(r);
        let what = format!("request {n} {r:?}");
        let path_of = |o: &u64, d: &u64| format!("{}/{}", NAMES[*o as usize], DBS[*d as usize]);
        let add_node = json!([{"InsertNodes": {"count": 1, "values": {"Single": []}, "aliases": [], "ids": {"Ids": []}}}]);
        let resp: Option<Resp> = match r {
            Req::ClockJump { seconds } => {
                live.offset += seconds;
                crate::verif_hooks::set_clock_offset(live.offset);
                rep.count(if *seconds > 0 { "fault.clock_jump_forward" } else { "fault.clock_jump_backward" }, 1);
                None
            }
            Req::Restart => {
                let s = live.server.take().unwrap();
                live.rt.block_on(s.stop());
                let old = std::mem::replace(&mut live.rt, runtime());
                drop(old);
                live.server = Some(live.rt.block_on(Server::start(dir, EXPIRY as u64))?);
                rep.count("fault.server_restart", 1);
                None
            }
            Req::AddUser { by, user } => Some(live.call("POST", &format!("/admin/user/{}/add", NAMES[*user as usize]), live.token(*by).as_deref(), Some(json!({"password": pw(*user)})))),
            Req::Login { user, good_password } => {
                let password = if *user == 0 { "admin".to_string() } else { pw(*user) };
                let password = if *good_password { password } else { format!("{password}-wrong") };
                let resp = live.call("POST", "/user/login", None, Some(json!({"username": NAMES[*user as usize], "password": password})));
                if resp.status == 200
                    && let Some(t) = resp.body.as_str()
                    && expect == Expect::Allow
                {
                    live.tokens.push(t.to_string());
                }
                Some(resp)
            }
            Req::Logout { by, all } => Some(live.call("POST", if *all { "/user/logout?session=all" } else { "/user/logout" }, live.token(*by).as_deref(), None)),
            Req::DbAdd { by, owner, db } => Some(live.call("POST", &format!("/db/{}/add?db_type=mapped", path_of(owner, db)), live.token(*by).as_deref(), None)),
            Req::DbDelete { by, owner, db } => Some(live.call("DELETE", &format!("/db/{}/delete", path_of(owner, db)), live.token(*by).as_deref(), None)),
            Req::DbCopy { by, owner, db, new_db } => Some(live.call("POST", &format!("/db/{}/copy?new_db={}", path_of(owner, db), DBS[*new_db as usize]), live.token(*by).as_deref(), None)),
            Req::DbUserAdd { by, owner, db, user, role } => Some(live.call("PUT", &format!("/db/{}/user/{}/add?db_role={}", path_of(owner, db), NAMES[*user as usize], ["", "read", "write", "admin"][*role as usize]), live.token(*by).as_deref(), None)),
            Req::DbUserRemove { by, owner, db, user } => Some(live.call("DELETE", &format!("/db/{}/user/{}/remove", path_of(owner, db), NAMES[*user as usize]), live.token(*by).as_deref(), None)),
            Req::Exec { by, owner, db } => Some(live.call("POST", &format!("/db/{}/exec", path_of(owner, db)), live.token(*by).as_deref(), Some(json!([{"SelectNodeCount": {}}])))),
            Req::ExecMut { by, owner, db } => Some(live.call("POST", &format!("/db/{}/exec_mut", path_of(owner, db)), live.token(*by).as_deref(), Some(add_node.clone()))),
            Req::ExecMutReadOnly { by, owner, db } => Some(live.call("POST", &format!("/db/{}/exec_mut", path_of(owner, db)), live.token(*by).as_deref(), Some(json!([{"SelectNodeCount": {}}])))),
            Req::Optimize { by, owner, db } => Some(live.call("POST", &format!("/db/{}/optimize", path_of(owner, db)), live.token(*by).as_deref(), None)),
            Req::Backup { by, owner, db } => Some(live.call("POST", &format!("/db/{}/backup", path_of(owner, db)), live.token(*by).as_deref(), None)),
            Req::Audit { by, owner, db } => Some(live.call("GET", &format!("/db/{}/audit", path_of(owner, db)), live.token(*by).as_deref(), None)),
            Req::DbUserList { by, owner, db } => Some(live.call("GET", &format!("/db/{}/user/list", path_of(owner, db)), live.token(*by).as_deref(), None)),
            Req::DbList { by } => Some(live.call("GET", "/db/list", live.token(*by).as_deref(), None)),
            Req::AdminDbList { by } => Some(live.call("GET", "/admin/db/list", live.token(*by).as_deref(), None)),
            Req::AdminUserList { by } => Some(live.call("GET", "/admin/user/list", live.token(*by).as_deref(), None)),
            Req::AdminExecMut { by, owner, db } => Some(live.call("POST", &format!("/admin/db/{}/exec_mut", path_of(owner, db)), live.token(*by).as_deref(), Some(add_node.clone()))),
        };
        let mutating = matches!(r, Req::AddUser { .. } | Req::DbAdd { .. } | Req::DbDelete { .. } | Req::DbCopy { .. } | Req::DbUserAdd { .. } | Req::DbUserRemove { .. } | Req::ExecMut { .. } | Req::AdminExecMut { .. });
        if let Some(resp) = resp {
            let ok = (200..300).contains(&resp.status);
            match (&expect, ok) {
                (Expect::Allow, true) | (Expect::Deny, false) => {}
                (Expect::Deny, true) => {
                    return Ok(Some(("request-performed-without-permission".into(), format!("{what}: the model (actor {:?}) denies it but the server answered {} {}", before.actor(tok_of(r)), resp.status, clip(&resp.body)))));
                }
                (Expect::Allow, false) => {
                    return Ok(Some(("permitted-request-refused".into(), format!("{what}: the model (actor {:?}) allows it but the server answered {} {}", before.actor(tok_of(r)), resp.status, clip(&resp.body)))));
                }
            }
            if mutating {
                if ok { allowed_mut += 1 } else { denied_mut += 1 }
            }
        }
        // after every request the observable state must be the model's (a denied request has no effect)
        let got = live.observe()?;
        let want = m.observable();
        if got != want {
            let class = if expect == Expect::Deny { "denied-request-had-an-effect" } else { "state-differs-from-permission-model" };
            return Ok(Some((class.into(), format!("after {what}: server {got} vs model {want}"))));
        }
        rep.evals += 1;
    }
    if let Some(s) = live.server.take() {
        live.rt.block_on(s.stop());
    }
    crate::verif_hooks::set_clock_offset(0);
    if allowed_mut > 0 && denied_mut > 0 {
        rep.nontrivial = 1;
    }
    Ok(None)
}

fn tok_of(r: &Req) -> Tok {
    match r {
        Req::AddUser { by, .. } | Req::Logout { by, .. } | Req::DbAdd { by, .. } | Req::DbDelete { by, .. } | Req::DbCopy { by, .. } | Req::DbUserAdd { by, .. } | Req::DbUserRemove { by, .. } | Req::Exec { by, .. } | Req::ExecMut { by, .. } | Req::ExecMutReadOnly { by, .. } | Req::Optimize { by, .. } | Req::Backup { by, .. } | Req::Audit { by, .. } | Req::DbUserList { by, .. } | Req::DbList { by } | Req::AdminDbList { by } | Req::AdminUserList { by } | Req::AdminExecMut { by, .. } => *by,
        _ => Tok::None,
    }
}

fn clip(v: &Value) -> String {
    let s = v.to_string();
    if s.len() > 200 { format!("{}...", s.chars().take(200).collect::<String>()) } else { s }
}

pub(crate) fn exec(plan: &Plan, trials: &mut Trials) -> RunReport {
    let mut rep = RunReport::default();
    let mut h = Fnv::new();
    h.str(&serde_json::to_string(plan).unwrap());
    rep.prog_hash = h.get();
    let _ = trials.begin();
    let dir = Scratch::new("c24", rep.prog_hash);
    let mut inner = RunReport::default();
    let r = catch(|| run(plan, &dir.0, &mut inner));
    crate::verif_hooks::set_clock_offset(0);
    rep.evals = inner.evals;
    rep.nontrivial = inner.nontrivial;
    rep.counters = inner.counters;
    rep.log_hash = rep.evals ^ rep.prog_hash.rotate_left(9);
    match r {
        Caught::Ok(Ok(None)) => {}
        Caught::Ok(Ok(Some((class, detail)))) => rep.viols.push(Viol { property: "C24".into(), class, detail, trial: 0 }),
        Caught::Ok(Err(e)) => rep.viols.push(Viol { property: "HARNESS".into(), class: "setup".into(), detail: e, trial: 0 }),
        Caught::Panic(p) => rep.viols.push(Viol { property: "C24".into(), class: panic_class(&p), detail: p, trial: 0 }),
        Caught::Budget => {}
    }
    rep
}
