//! C31 — every node applies committed actions once each and in log order.
//! Several actions are appended and committed before any of their execution tasks has run
//! (concurrent submissions on the single-node server); the H6 hook lets the simulator choose
//! how long each spawned execution task waits before it starts, i.e. every start order a
//! multi-threaded runtime could produce.

use super::server::*;
use crate::raft::Storage as _;
use crate::action::db_add::DbAdd;
use crate::action::db_exec::DbExec;
use crate::action::db_user_add::DbUserAdd;
use crate::action::user_add::UserAdd;
use agdb::QueryBuilder;
use agdb_api::{DbKind, DbUserRole, Queries};
use serde::{Deserialize, Serialize};
use serde_json::{Value, json};
use simcore::harness::*;
use simcore::{Fnv, Rng};

#[derive(Clone, Debug, Serialize, Deserialize, PartialEq)]
pub(crate) enum Act {
    /// exec_mut on admin/base: set key "k" of node "x" to `v` and add one node (not idempotent)
    SetKey { v: i64 },
    AddDb { db: String },
    /// exec_mut on admin/<db>: add one node
    ExecOn { db: String },
    AddUser { user: String },
    /// exec_mut on admin/base: create node "x" with k = 0 (follower scenario seed)
    SeedBase,
    GrantRole { db: String, user: String },
    /// exec_mut on admin/base: select "y", set key "k" of node "x" and add one node - fails as long as "y" does not exist
    SetOnY { v: i64 },
    /// exec_mut on admin/base: create node "y" (fails if it exists already)
    MakeY,
}

/// What the (simulated) leader sends to the follower under test.
#[derive(Clone, Debug, Serialize, Deserialize, PartialEq)]
pub(crate) enum LeaderMsg {
    /// Append carrying entries first..first+n-1 (the leader's log ends there)
    Append { first: u64, n: u64 },
    /// Heartbeat announcing commit index `upto`
    Commit { upto: u64 },
}

#[derive(Clone, Debug, Serialize, Deserialize)]
pub(crate) struct Plan {
    /// follower path: the node is fed Append / Heartbeat requests so that several entries are committed at once
    #[serde(default)]
    pub follower: Vec<LeaderMsg>,
    pub acts: Vec<Act>,
    /// yields before the execution task of the k-th concurrently committed action starts
    pub delays: Vec<u64>,
    pub restart: bool,
    /// follower path: how often the driver yields to the runtime after the k-th leader message (0 = the next
    /// message is handled before any task spawned by this one has run)
    #[serde(default)]
    pub yields: Vec<u64>,
}

fn generate_follower(rng: &mut Rng) -> Plan {
    // log: 1 = add the base database, 2 = seed it, 3.. = conflicting writes (same key, one node each)
    let total = rng.range(5, 11);
    let mut acts = vec![Act::AddDb { db: "base".into() }, Act::SeedBase];
    // some logs contain an action that fails when it is executed (and would succeed if it were ever executed
    // again later): it must be executed exactly once like every other
    let failing = rng.chance(1, 2);
    let mut made_y = false;
    for i in 3..=total {
        acts.push(match rng.below(6) {
            0 if failing => Act::SetOnY { v: 100 + i as i64 },
            1 if failing && !made_y => {
                made_y = true;
                Act::MakeY
            }
            _ => Act::SetKey { v: 100 + i as i64 },
        });
    }
    let mut msgs = vec![];
    let mut appended = 0u64;
    let mut committed = 0u64;
    while committed < total {
        if appended < total && (appended == committed || rng.chance(2, 3)) {
            let n = rng.range(1, 3).min(total - appended);
            msgs.push(LeaderMsg::Append { first: appended + 1, n });
            appended += n;
        } else {
            let upto = if rng.chance(1, 2) { appended } else { rng.range(committed + 1, appended) };
            msgs.push(LeaderMsg::Commit { upto });
            committed = upto;
        }
    }
    let delays = (0..total).map(|_| rng.below(4)).collect();
    let eager = rng.chance(1, 2);
    let yields = (0..msgs.len()).map(|_| if eager { rng.below(3) } else { 3 }).collect();
    Plan { follower: msgs, acts, delays, restart: rng.chance(1, 2), yields }
}

pub(crate) fn generate(seed: u64, run: u64, _tier: Tier) -> Plan {
    let mut rng = Rng::derive(seed, run, 31);
    if rng.chance(2, 5) {
        return generate_follower(&mut rng);
    }
    let n = rng.range(2, 6);
    let mut acts = vec![];
    let mut dbs: Vec<String> = vec![];
    let mut users: Vec<String> = vec![];
    for i in 0..n {
        let a = match rng.below(8) {
            6 => Act::SetOnY { v: 100 + i as i64 },
            7 => Act::MakeY,
            0 | 1 => Act::SetKey { v: 100 + i as i64 },
            2 => {
                let db = format!("d{i}");
                dbs.push(db.clone());
                Act::AddDb { db }
            }
            3 if !dbs.is_empty() => Act::ExecOn { db: rng.pick(&dbs).clone() },
            4 => {
                let user = format!("u{i}");
                users.push(user.clone());
                Act::AddUser { user }
            }
            5 if !users.is_empty() => Act::GrantRole { db: if dbs.is_empty() || rng.chance(1, 2) { "base".into() } else { rng.pick(&dbs).clone() }, user: rng.pick(&users).clone() },
            _ => Act::SetKey { v: 100 + i as i64 },
        };
        acts.push(a);
    }
    let reorder = rng.chance(4, 5);
    let delays = (0..n).map(|_| if reorder { rng.below(6) } else { 0 }).collect();
    Plan { follower: vec![], acts, delays, restart: rng.chance(1, 2), yields: vec![] }
}

type ActFuture<'a> = std::pin::Pin<Box<dyn std::future::Future<Output = crate::server_error::ServerResult<(u64, crate::action::ClusterActionResult)>> + 'a>>;

fn submit<'a>(s: &'a Server, a: &Act) -> ActFuture<'a> {
    match a {
        Act::SetKey { v } => Box::pin(s.cluster.exec(DbExec {
            user: "admin".into(),
            owner: "admin".into(),
            db: "base".into(),
            queries: Queries(vec![QueryBuilder::insert().values([[("k", *v).into()]]).ids("x").query().into(), QueryBuilder::insert().nodes().count(1).query().into()]),
        })),
        Act::SeedBase => Box::pin(s.cluster.exec(seed_exec())),
        Act::SetOnY { v } => Box::pin(s.cluster.exec(set_on_y(*v))),
        Act::MakeY => Box::pin(s.cluster.exec(make_y())),
        Act::AddDb { db } => Box::pin(s.cluster.exec(DbAdd { owner: "admin".into(), db: db.clone(), db_type: DbKind::Mapped })),
        Act::ExecOn { db } => Box::pin(s.cluster.exec(DbExec { user: "admin".into(), owner: "admin".into(), db: db.clone(), queries: Queries(vec![QueryBuilder::insert().nodes().count(1).query().into()]) })),
        Act::AddUser { user } => {
            let p = crate::password::Password::create(user, "password123");
            Box::pin(s.cluster.exec(UserAdd { user: user.clone(), password: p.password.to_vec(), salt: p.user_salt.to_vec() }))
        }
        Act::GrantRole { db, user } => Box::pin(s.cluster.exec(DbUserAdd { owner: "admin".into(), db: db.clone(), user: user.clone(), db_role: DbUserRole::Write })),
    }
}

fn set_on_y(v: i64) -> DbExec {
    DbExec { user: "admin".into(), owner: "admin".into(), db: "base".into(), queries: Queries(vec![QueryBuilder::select().ids("y").query().into(), QueryBuilder::insert().values([[("k", v).into()]]).ids("x").query().into(), QueryBuilder::insert().nodes().count(1).query().into()]) }
}

fn make_y() -> DbExec {
    DbExec { user: "admin".into(), owner: "admin".into(), db: "base".into(), queries: Queries(vec![QueryBuilder::insert().nodes().aliases("y").query().into()]) }
}

fn seed_exec() -> DbExec {
    DbExec { user: "admin".into(), owner: "admin".into(), db: "base".into(), queries: Queries(vec![QueryBuilder::insert().nodes().aliases("x").values([[("k", 0).into()]]).query().into()]) }
}

fn to_cluster_action(a: &Act) -> crate::action::ClusterAction {
    match a {
        Act::SetKey { v } => DbExec {
            user: "admin".into(),
            owner: "admin".into(),
            db: "base".into(),
            queries: Queries(vec![QueryBuilder::insert().values([[("k", *v).into()]]).ids("x").query().into(), QueryBuilder::insert().nodes().count(1).query().into()]),
        }
        .into(),
        Act::SeedBase => seed_exec().into(),
        Act::SetOnY { v } => set_on_y(*v).into(),
        Act::MakeY => make_y().into(),
        Act::AddDb { db } => DbAdd { owner: "admin".into(), db: db.clone(), db_type: DbKind::Mapped }.into(),
        Act::ExecOn { db } => DbExec { user: "admin".into(), owner: "admin".into(), db: db.clone(), queries: Queries(vec![QueryBuilder::insert().nodes().count(1).query().into()]) }.into(),
        Act::AddUser { user } => {
            let p = crate::password::Password::create(user, "password123");
            UserAdd { user: user.clone(), password: p.password.to_vec(), salt: p.user_salt.to_vec() }.into()
        }
        Act::GrantRole { db, user } => DbUserAdd { owner: "admin".into(), db: db.clone(), user: user.clone(), db_role: DbUserRole::Write }.into(),
    }
}

/// A request as the leader (node 1, term 1) would send it; built through Request's Deserialize.
fn leader_request(hash: u64, log_index: u64, log_commit: u64, entries: Option<Vec<(u64, Vec<u8>)>>) -> crate::raft::Request<crate::action::ClusterAction> {
    let data = match entries {
        Some(e) => json!({"Append": e.into_iter().map(|(index, bytes)| json!({"index": index, "term": 1, "data": bytes})).collect::<Vec<_>>()}),
        None => json!("Heartbeat"),
    };
    serde_json::from_value(json!({"hash": hash, "index": 1, "target": 0, "term": 1, "log_index": log_index, "log_term": 1, "log_commit": log_commit, "data": data})).expect("request json")
}

/// Observable state of the follower read directly (its HTTP API would forward to a leader that does not exist).
async fn observe_follower(s: &Server) -> Value {
    use agdb::*;
    let mut out = serde_json::Map::new();
    let mut names: Vec<String> = s.server_db.dbs().await.map(|v| v.into_iter().map(|d| format!("{}/{}", d.owner, d.db)).collect()).unwrap_or_default();
    names.sort();
    out.insert("dbs".into(), json!(names));
    let q = Queries(vec![QueryType::SelectNodeCount(SelectNodeCountQuery {}), QueryBuilder::select().values("k").ids("x").query().into()]);
    match s.db_pool.exec("admin", "base", q).await {
        Ok(r) => {
            out.insert("base:nodes".into(), json!(r[0].result));
            out.insert("base:k".into(), serde_json::to_value(&r[1].elements).unwrap_or_default());
        }
        Err(e) => {
            out.insert("base:error".into(), json!(e.description));
        }
    }
    Value::Object(out)
}

async fn run_follower(plan: &Plan, dir: &str, msgs: &[LeaderMsg], use_delays: bool) -> Result<Outcome, String> {
    use agdb::StableHash;
    let s = Server::start_follower(dir).await?;
    let mut sorted: Vec<String> = s.config.cluster.iter().map(|u| u.to_string()).collect();
    sorted.sort();
    let hash = sorted.stable_hash();
    let mut rx = s.cluster.raft.read().await.storage.subscribe().await;
    let delays = plan.delays.clone();
    if use_delays {
        crate::verif_hooks::set_task_delays(Some(Box::new(move |index| delays.get(index.saturating_sub(1) as usize).copied().unwrap_or(0))));
    } else {
        crate::verif_hooks::set_task_delays(None);
    }
    let total = plan.acts.len() as u64;
    let mut appended = 0u64;
    let mut committed = 0u64;
    let mut results = vec![];
    for (k, m) in msgs.iter().enumerate() {
        let req = match m {
            LeaderMsg::Append { first, n } => {
                let entries: Vec<(u64, Vec<u8>)> = (*first..first + n).filter(|i| *i <= total).map(|i| (i, agdb::AgdbSerialize::serialize(&to_cluster_action(&plan.acts[i as usize - 1])))).collect();
                appended = appended.max(first + n - 1).min(total);
                leader_request(hash, appended, committed, Some(entries))
            }
            LeaderMsg::Commit { upto } => {
                committed = (*upto).min(appended);
                leader_request(hash, appended, committed, None)
            }
        };
        let resp = s.cluster.raft.write().await.request(&req).await;
        results.push(Ok::<u64, String>(serde_json::to_value(&resp).map(|v| v["result"].to_string().len() as u64).unwrap_or(0)).and(Ok(0)));
        for _ in 0..(if use_delays { plan.yields.get(k).copied().unwrap_or(3) } else { 3 }) {
            tokio::task::yield_now().await;
        }
    }
    // let the executor finish what was committed
    let mut order = vec![];
    for _ in 0..2000 {
        while let Ok(i) = rx.try_recv() {
            order.push(i);
        }
        if order.len() as u64 >= committed {
            break;
        }
        tokio::task::yield_now().await;
    }
    crate::verif_hooks::set_task_delays(None);
    let state = observe_follower(&s).await;
    s.stop().await;
    Ok(Outcome { order, results, state, state_after_restart: None })
}

async fn follower_after_restart(dir: &str) -> Result<Value, String> {
    let s = Server::start_follower(dir).await?;
    let mut rx = s.cluster.raft.read().await.storage.subscribe().await;
    for _ in 0..50 {
        tokio::task::yield_now().await;
    }
    let mut again = vec![];
    while let Ok(i) = rx.try_recv() {
        again.push(i);
    }
    let mut st = observe_follower(&s).await;
    if !again.is_empty() {
        st["executed_again_after_restart"] = json!(again);
    }
    s.stop().await;
    Ok(st)
}

/// Observable server state through the admin API.
async fn observe(s: &Server, token: &str) -> Value {
    let mut out = serde_json::Map::new();
    let dbs = s.call("GET", "/admin/db/list", Some(token), None).await;
    let mut names: Vec<String> = dbs.body.as_array().map(|a| a.iter().filter_map(|d| Some(format!("{}/{}", d["owner"].as_str()?, d["db"].as_str()?))).collect()).unwrap_or_default();
    names.sort();
    out.insert("dbs".into(), json!(names));
    for full in &names {
        let (owner, db) = full.split_once('/').unwrap_or(("admin", full));
        let q = json!([{"SelectNodeCount": {}}, {"Search": {"algorithm": "Elements", "origin": {"Id": 0}, "destination": {"Id": 0}, "limit": 0, "offset": 0, "order_by": [], "conditions": []}}]);
        let r = s.call("POST", &format!("/admin/db/{owner}/{db}/exec"), Some(token), Some(q)).await;
        out.insert(format!("db:{full}:nodes"), r.body[0]["result"].clone());
        if db == "base" {
            let q = json!([{"SelectValues": {"keys": [{"String": "k"}], "ids": {"Ids": [{"Alias": "x"}]}}}]);
            let r = s.call("POST", &format!("/admin/db/{owner}/{db}/exec"), Some(token), Some(q)).await;
            out.insert("base:k".into(), r.body[0]["elements"][0]["values"].clone());
        }
        let u = s.call("GET", &format!("/admin/db/{owner}/{db}/user/list"), Some(token), None).await;
        let mut users: Vec<String> = u.body.as_array().map(|a| a.iter().map(|x| format!("{}:{}", x["username"].as_str().unwrap_or(""), x["role"])).collect()).unwrap_or_default();
        users.sort();
        out.insert(format!("db:{full}:users"), json!(users));
    }
    let users = s.call("GET", "/admin/user/list", Some(token), None).await;
    let mut names: Vec<String> = users.body.as_array().map(|a| a.iter().filter_map(|d| d["username"].as_str().map(|x| x.to_string())).collect()).unwrap_or_default();
    names.sort();
    out.insert("users".into(), json!(names));
    Value::Object(out)
}

async fn setup(dir: &str) -> Result<(Server, String), String> {
    let s = Server::start(dir, 3600).await?;
    let token = s.login("admin", "admin").await.ok_or("admin login failed")?;
    let r = s.call("POST", "/db/admin/base/add?db_type=mapped", Some(&token), None).await;
    if r.status != 201 {
        return Err(format!("db add: {} {}", r.status, r.body));
    }
    let q = json!([{"InsertNodes": {"count": 0, "values": {"Single": [{"key": {"String": "k"}, "value": {"I64": 0}}]}, "aliases": ["x"], "ids": {"Ids": []}}}]);
    let r = s.call("POST", "/db/admin/base/exec_mut", Some(&token), Some(q)).await;
    if r.status != 200 {
        return Err(format!("seed exec: {} {}", r.status, r.body));
    }
    Ok((s, token))
}

struct Outcome {
    order: Vec<u64>,
    results: Vec<Result<u64, String>>,
    state: Value,
    state_after_restart: Option<Value>,
}

async fn run_one(plan: &Plan, dir: &str, concurrent: bool) -> Result<Outcome, String> {
    let (s, token) = setup(dir).await?;
    let mut rx = s.cluster.raft.read().await.storage.subscribe().await;
    let base = s.cluster.raft.read().await.storage.log_index();
    let delays = plan.delays.clone();
    if concurrent {
        crate::verif_hooks::set_task_delays(Some(Box::new(move |index| {
            let k = index.saturating_sub(base + 1) as usize;
            delays.get(k).copied().unwrap_or(0)
        })));
    } else {
        crate::verif_hooks::set_task_delays(None);
    }
    let mut results = vec![];
    if concurrent {
        // all submitted before any execution task can run: appended and committed in this order
        let futs: Vec<ActFuture> = plan.acts.iter().map(|a| submit(&s, a)).collect();
        let rs = futures_join_all(futs).await;
        for r in rs {
            results.push(r.map(|(i, _)| i).map_err(|e| e.description));
        }
    } else {
        for a in &plan.acts {
            let r = submit(&s, a).await;
            results.push(r.map(|(i, _)| i).map_err(|e| e.description));
        }
    }
    crate::verif_hooks::set_task_delays(None);
    let mut order = vec![];
    while let Ok(i) = rx.try_recv() {
        order.push(i);
    }
    let state = observe(&s, &token).await;
    s.stop().await;
    Ok(Outcome { order, results, state, state_after_restart: None })
}

/// The restart half: a fresh runtime (every task of the old server is gone), state rebuilt from the data directory.
async fn after_restart(dir: &str) -> Result<Value, String> {
    {
        let s2 = Server::start(dir, 3600).await?;
        let mut rx2 = s2.cluster.raft.read().await.storage.subscribe().await;
        for _ in 0..50 {
            tokio::task::yield_now().await;
        }
        let token2 = s2.login("admin", "admin").await.ok_or("admin login after restart failed")?;
        let mut again = vec![];
        while let Ok(i) = rx2.try_recv() {
            again.push(i);
        }
        let mut st = observe(&s2, &token2).await;
        if !again.is_empty() {
            st["executed_again_after_restart"] = json!(again);
        }
        s2.stop().await;
        Ok(st)
    }
}

/// join_all without the futures crate: polls every future in order until all are ready.
async fn futures_join_all<F: std::future::Future + Unpin>(mut futs: Vec<F>) -> Vec<F::Output> {
    use std::pin::Pin;
    use std::task::Poll;
    let mut out: Vec<Option<F::Output>> = futs.iter().map(|_| None).collect();
    std::future::poll_fn(|cx| {
        let mut pending = false;
        for (i, f) in futs.iter_mut().enumerate() {
            if out[i].is_none() {
                match Pin::new(f).poll(cx) {
                    Poll::Ready(v) => out[i] = Some(v),
                    Poll::Pending => pending = true,
                }
            }
        }
        if pending { Poll::Pending } else { Poll::Ready(()) }
    })
    .await;
    out.into_iter().map(|o| o.unwrap()).collect()
}

pub(crate) fn exec(plan: &Plan, trials: &mut Trials) -> RunReport {
    let mut rep = RunReport::default();
    let mut h = Fnv::new();
    h.str(&serde_json::to_string(plan).unwrap());
    rep.prog_hash = h.get();
    let _ = trials.begin();
    let a = Scratch::new("c31a", rep.prog_hash);
    let b = Scratch::new("c31b", rep.prog_hash);
    let r = catch(|| {
        if !plan.follower.is_empty() {
            let rt = runtime();
            let mut conc = rt.block_on(run_follower(plan, &a.0, &plan.follower, true))?;
            drop(rt);
            if plan.restart {
                let rt = runtime();
                conc.state_after_restart = Some(rt.block_on(follower_after_restart(&a.0))?);
                drop(rt);
            }
            // reference: the same log delivered and committed one entry at a time
            let seq_msgs: Vec<LeaderMsg> = (1..=plan.acts.len() as u64).flat_map(|i| [LeaderMsg::Append { first: i, n: 1 }, LeaderMsg::Commit { upto: i }]).collect();
            let rt = runtime();
            let mut seq = rt.block_on(run_follower(plan, &b.0, &seq_msgs, false))?;
            drop(rt);
            // responses are per message, not per action: only order and state are compared
            seq.results = vec![];
            conc.results = vec![];
            return Ok::<_, String>((conc, seq));
        }
        let rt = runtime();
        let mut conc = rt.block_on(run_one(plan, &a.0, true))?;
        drop(rt);
        if plan.restart {
            let rt = runtime();
            conc.state_after_restart = Some(rt.block_on(after_restart(&a.0))?);
            drop(rt);
        }
        let rt = runtime();
        let seq = rt.block_on(run_one(plan, &b.0, false))?;
        drop(rt);
        Ok::<_, String>((conc, seq))
    });
    rep.evals = 1;
    let multi_commit = {
        let mut prev = 0u64;
        let mut any = false;
        for m in &plan.follower {
            if let LeaderMsg::Commit { upto } = m {
                if *upto >= prev + 2 {
                    any = true;
                }
                prev = (*upto).max(prev);
            }
        }
        any
    };
    if !plan.follower.is_empty() {
        rep.count("config.follower_path", 1);
    }
    let reordering = plan.delays.windows(2).any(|w| w[0] > w[1]) || multi_commit;
    if reordering {
        rep.nontrivial = 1;
        rep.count("fault.task_start_reordered", 1);
    }
    let mut lh = Fnv::new();
    match r {
        Caught::Ok(Ok((conc, seq))) => {
            lh.str(&format!("{:?}{:?}", conc.order, conc.results));
            if std::env::var("VERIF_TRACE").is_ok() {
                eprintln!("C31 trace: order {:?} results {:?}\n  state {}\n  after restart {:?}\n  sequential {}", conc.order, conc.results, conc.state, conc.state_after_restart.as_ref().map(|s| s.to_string()), seq.state);
            }
            let v = judge(plan, &conc, &seq);
            if let Some((class, detail)) = v {
                rep.viols.push(Viol { property: "C31".into(), class, detail, trial: 0 });
            }
        }
        Caught::Ok(Err(e)) => rep.viols.push(Viol { property: "HARNESS".into(), class: "setup".into(), detail: e, trial: 0 }),
        Caught::Panic(p) => rep.viols.push(Viol { property: "C31".into(), class: panic_class(&p), detail: p, trial: 0 }),
        Caught::Budget => {}
    }
    rep.log_hash = lh.get();
    rep
}

fn judge(plan: &Plan, conc: &Outcome, seq: &Outcome) -> Option<(String, String)> {
    // once each, in increasing log index order
    let mut sorted = conc.order.clone();
    sorted.sort();
    sorted.dedup();
    if sorted.len() != conc.order.len() {
        return Some(("action-executed-more-than-once".into(), format!("execution order {:?} contains a repeated log index (delays {:?})", conc.order, plan.delays)));
    }
    if sorted != conc.order {
        return Some(("executed-out-of-log-order".into(), format!("committed actions {:?} were executed in the order {:?} (task start delays {:?})", plan.acts, conc.order, plan.delays)));
    }
    // same outcome as executing the same log sequentially
    let ok = |o: &Outcome| o.results.iter().map(|r| r.is_ok()).collect::<Vec<_>>();
    if ok(conc) != ok(seq) {
        return Some(("result-differs-from-sequential-execution".into(), format!("results {:?} vs sequential {:?} for {:?} (delays {:?})", conc.results, seq.results, plan.acts, plan.delays)));
    }
    if conc.state != seq.state {
        return Some(("state-differs-from-sequential-execution".into(), format!("state {} vs sequential {} for {:?} (delays {:?})", conc.state, seq.state, plan.acts, plan.delays)));
    }
    if let Some(st) = &conc.state_after_restart
        && *st != conc.state
    {
        return Some(("state-changed-by-restart".into(), format!("after restart {} vs before {} for {:?}", st, conc.state, plan.acts)));
    }
    None
}
