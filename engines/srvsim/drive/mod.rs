//! srvsim driver: the real agdb_server compiled in-process and driven through its axum Router
//! on a current_thread tokio runtime (engine E3).

mod c24;
mod c25;
mod c31;
mod server;

use serde_json::Value;
use simcore::harness::*;

fn c31_gen(seed: u64, run: u64, tier: Tier) -> Value {
    serde_json::to_value(c31::generate(seed, run, tier)).unwrap()
}
fn c31_exec(plan: &Value, t: &mut Trials) -> RunReport {
    let plan: c31::Plan = serde_json::from_value(plan.clone()).expect("bad plan");
    c31::exec(&plan, t)
}

fn c24_gen(seed: u64, run: u64, tier: Tier) -> Value {
    serde_json::to_value(c24::generate(seed, run, tier)).unwrap()
}
fn c24_exec(plan: &Value, t: &mut Trials) -> RunReport {
    let plan: c24::Plan = serde_json::from_value(plan.clone()).expect("bad plan");
    c24::exec(&plan, t)
}
fn c25_gen(seed: u64, run: u64, tier: Tier) -> Value {
    serde_json::to_value(c25::generate(seed, run, tier)).unwrap()
}
fn c25_exec(plan: &Value, t: &mut Trials) -> RunReport {
    let plan: c25::Plan = serde_json::from_value(plan.clone()).expect("bad plan");
    c25::exec(&plan, t)
}

const REAL: &[&str] = &["agdb_server: routes, ServerDb, DbPool, UserDb, ClusterStorage, ClusterLog, actions, single-node raft::Cluster; agdb underneath (real files in a per-run scratch directory)"];
const STUB: &[&str] = &["HTTP transport: direct tower::Service calls on the axum Router (no sockets)", "task scheduler: real tokio current_thread runtime; the start order of committed-action execution tasks is chosen by the simulator through the H6 hook", "clock: wall clock plus a simulator-owned offset (H5 hook) for token expiry"];

fn find(id: &str) -> Option<CheckDef> {
    match id {
        "C31" => Some(CheckDef {
            id: "C31",
            level: "exploration",
            generate: c31_gen,
            exec: c31_exec,
            steps: "/acts",
            runs: |t| match t {
                Tier::Quick => 800,
                Tier::Thorough => 6000,
            },
            wall_cap_s: |t| match t {
                Tier::Quick => 150,
                Tier::Thorough => 1700,
            },
            rule: "runs = 2-6 conflicting cluster actions (exec batches writing the same key of one database and adding a node, database add followed by exec on it, user add followed by a role grant) submitted concurrently to the in-process single-node server so that all are appended and committed before any execution task has run; the simulator draws, per committed action, how many times its spawned execution task yields before it starts (H6 hook), which reaches every start order a multi-threaded runtime could produce; judged: the sequence of log indexes announced on ClusterStorage::subscribe() is strictly increasing without repeats, results and the observable server/database state (db list, node counts, value of the contended key, db users, user list through the admin API) equal those of executing the same actions one after another on a second server, and a restart (state rebuilt from the data directory) changes nothing and executes nothing again; evaluations = runs; distinct_nontrivial = runs (by plan hash) whose drawn delays would start a later action before an earlier one",
            assumptions: &["single-node server: the follower path (entries committed by an Append request) reaches the same ClusterStorage::commit code", "the reference is the same server code executing the actions strictly one after another"],
            real: REAL,
            stub: STUB,
            eval_unit: "concurrent-commit runs compared with sequential execution",
        }),
        "C24" => Some(CheckDef {
            id: "C24",
            level: "exploration",
            generate: c24_gen,
            exec: c24_exec,
            steps: "/reqs",
            runs: |t| match t {
                Tier::Quick => 400,
                Tier::Thorough => 6000,
            },
            wall_cap_s: |t| match t {
                Tier::Quick => 150,
                Tier::Thorough => 1700,
            },
            rule: "histories = seeded multi-user request sequences against the in-process server (admin adds users, login with good/bad password, logout of one/all sessions, db add / delete / copy, role grants and removals, exec, exec_mut with mutating and read-only batches, optimize, backup, audit, user list, db list, admin endpoints), each issued with a token drawn from {a session opened earlier in the history - possibly logged out or expired meanwhile, garbage, none}; faults: clock jumps past and back before token expiry (H5 hook) and server restarts (state rebuilt from the data directory); a permission model built from the documented table (owner / read / write / admin role / server admin; exec_mut needs write even for read-only batches) predicts allow or deny for every request, the status class must agree, and after every request the observable state (users, databases, roles, node counts, read with a separate admin probe session) must equal the model, so a denied request has no effect and a revoked right is gone for the very next request; evaluations = requests judged; distinct_nontrivial = histories (plan hash) with at least one denied and one allowed mutating request",
            assumptions: &["token expiry is judged with a margin of 50 s (expiry 1050 s, jumps in multiples of 100 s) so second-granularity wall-clock drift during a run cannot flip a verdict", "requests whose outcome the documentation leaves open (removing a non-member, renaming across owners) are not generated"],
            real: REAL,
            stub: STUB,
            eval_unit: "requests judged against the permission model",
        }),
        "C25" => Some(CheckDef {
            id: "C25",
            level: "exploration",
            generate: c25_gen,
            exec: c25_exec,
            steps: "/steps",
            runs: |t| match t {
                Tier::Quick => 800,
                Tier::Thorough => 6000,
            },
            wall_cap_s: |t| match t {
                Tier::Quick => 150,
                Tier::Thorough => 1700,
            },
            rule: "histories = seeded batches (1-5 queries from the database operation language: node/edge/value/alias/index inserts, updates and removals by id, alias and search, mixed with reads) submitted by two users through exec_mut to a database of a seeded kind (mapped / file / memory) on the in-process server; abort injection: a failing query at a seeded position (missing element, empty alias, length mismatch, existing index), an out-of-bounds result reference, a mutating batch sent to the read-only endpoint; some batches refer to earlier results by ':k'; server restarts in between (non-memory kinds); after every step the result of a fixed read batch (node count, all elements, all values, aliases, indexes) on the server is compared with the same batch on a local reference database that executed each batch as one agdb transaction, and the audit log must list exactly the mutating queries of the applied batches in order with the submitting user; evaluations = steps compared; distinct_nontrivial = histories (plan hash) with at least one applied and at least one refused batch",
            assumptions: &["the reference is agdb's own mutable transaction on a DbMemory (its atomicity is decided by C13/C03/C32, its variant independence by C06)", "audit entries are compared without their timestamps"],
            real: REAL,
            stub: STUB,
            eval_unit: "batch steps compared with the reference (state + audit)",
        }),
        _ => None,
    }
}

pub(crate) fn main() -> i32 {
    server::init_globals();
    let eng = Engine {
        name: "srvsim",
        find,
        simulated_time: "token expiry reads the wall clock plus a simulator-owned offset; task start order is simulated in yields, not time",
        alloc_cap: usize::MAX,
        hang_s: |_| 120,
    };
    main_dispatch(&eng)
}
