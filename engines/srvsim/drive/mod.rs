//! srvsim driver: the real agdb_server compiled in-process and driven through its axum Router
//! on a current_thread tokio runtime (engine E3).

mod c31;
mod server;

use serde_json::Value;
use simcore::harness::*;

fn c31_gen(seed: u64, run: u64, tier: Tier) -> Value {
    serde_json::to_value(c31::generate(seed, run, tier)).unwrap()
}
fn c31_exec(plan: &Value, t: &mut Trials) -> RunReport {
    let plan: c31::Plan = serde_json::from_value(plan.clone()).expect("bad plan");
    c31::exec(&plan, t)
}

const REAL: &[&str] = &["agdb_server: routes, ServerDb, DbPool, UserDb, ClusterStorage, ClusterLog, actions, single-node raft::Cluster; agdb underneath (real files in a per-run scratch directory)"];
const STUB: &[&str] = &["HTTP transport: direct tower::Service calls on the axum Router (no sockets)", "task scheduler: real tokio current_thread runtime; the start order of committed-action execution tasks is chosen by the simulator through the H6 hook", "clock: wall clock plus a simulator-owned offset (H5 hook) for token expiry"];

fn find(id: &str) -> Option<CheckDef> {
    match id {
        "C31" => Some(CheckDef {
            id: "C31",
            level: "exploration",
            generate: c31_gen,
            exec: c31_exec,
            steps: "/acts",
            runs: |t| match t {
                Tier::Quick => 160,
                Tier::Thorough => 6000,
            },
            wall_cap_s: |t| match t {
                Tier::Quick => 150,
                Tier::Thorough => 1700,
            },
            rule: "runs = 2-6 conflicting cluster actions (exec batches writing the same key of one database and adding a node, database add followed by exec on it, user add followed by a role grant) submitted concurrently to the in-process single-node server so that all are appended and committed before any execution task has run; the simulator draws, per committed action, how many times its spawned execution task yields before it starts (H6 hook), which reaches every start order a multi-threaded runtime could produce; judged: the sequence of log indexes announced on ClusterStorage::subscribe() is strictly increasing without repeats, results and the observable server/database state (db list, node counts, value of the contended key, db users, user list through the admin API) equal those of executing the same actions one after another on a second server, and a restart (state rebuilt from the data directory) changes nothing and executes nothing again; evaluations = runs; distinct_nontrivial = runs (by plan hash) whose drawn delays would start a later action before an earlier one",
            assumptions: &["single-node server: the follower path (entries committed by an Append request) reaches the same ClusterStorage::commit code", "the reference is the same server code executing the actions strictly one after another"],
            real: REAL,
            stub: STUB,
            eval_unit: "concurrent-commit runs compared with sequential execution",
        }),
        _ => None,
    }
}

pub(crate) fn main() -> i32 {
    server::init_globals();
    let eng = Engine {
        name: "srvsim",
        find,
        simulated_time: "token expiry reads the wall clock plus a simulator-owned offset; task start order is simulated in yields, not time",
        alloc_cap: usize::MAX,
        hang_s: |_| 120,
    };
    main_dispatch(&eng)
}
