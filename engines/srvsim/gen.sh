#!/bin/bash
# gen.sh <repo>: mirrors <repo>/agdb_server/src by symlinks into gen/src next to a generated crate root
# (the repo's main.rs with `main` renamed + the driver module), so pub(crate) items are reachable and every
# build compiles the repository's current working tree.
set -e
cd "$(dirname "$0")"
REPO="${1:-/repo}"
SRC="$REPO/agdb_server"
rm -rf gen
mkdir -p gen
cp -rs "$SRC/src" gen/src
ln -s "$SRC/pepper" gen/pepper
rm gen/src/main.rs
python3 - "$SRC/src/main.rs" gen/src/main.rs "$(pwd)/drive/mod.rs" <<'PY'
import sys,re
src,dst,drive=sys.argv[1:4]
s=open(src).read()
if s.count("#[tokio::main]\nasync fn main() -> ServerResult {")!=1:
    sys.exit("harness error: main.rs entry point pattern not found")
s=s.replace("#[tokio::main]\nasync fn main() -> ServerResult {","#[allow(dead_code)]\nasync fn server_main() -> ServerResult {")
# the jemalloc global allocator stays out of the simulator
s=re.sub(r'#\[cfg\(all\(target_os = "linux", target_env = "gnu"\)\)\]\n#\[global_allocator\]\nstatic GLOBAL: tikv_jemallocator::Jemalloc = tikv_jemallocator::Jemalloc;\n','',s)
s+=f'\n#[path = "{drive}"]\nmod drive;\n\nfn main() {{\n    std::process::exit(drive::main());\n}}\n'
open(dst,'w').write(s)
PY
echo "srvsim sources generated from $SRC"
