//! Shared machinery for the deterministic simulators: PRNG, hashing,
//! delta-debugging shrinker, process fan-out, evidence and known-findings files.

pub mod evidence;
pub mod findings;
pub mod harness;
pub mod rng;
pub mod shrink;
pub mod supervise;

pub use rng::Rng;

/// FNV-1a 64-bit, used for event-log hashes and fingerprints (stable across runs and platforms).
#[derive(Clone, Copy, Debug)]
pub struct Fnv(pub u64);

impl Default for Fnv {
    fn default() -> Self {
        Fnv(0xcbf29ce484222325)
    }
}

impl Fnv {
    pub fn new() -> Self {
        Self::default()
    }
    pub fn bytes(&mut self, b: &[u8]) -> &mut Self {
        for x in b {
            self.0 ^= *x as u64;
            self.0 = self.0.wrapping_mul(0x100000001b3);
        }
        self
    }
    pub fn u64(&mut self, v: u64) -> &mut Self {
        self.bytes(&v.to_le_bytes())
    }
    pub fn str(&mut self, s: &str) -> &mut Self {
        self.bytes(s.as_bytes()).bytes(&[0xff])
    }
    pub fn get(&self) -> u64 {
        self.0
    }
}

pub fn fnv(b: &[u8]) -> u64 {
    let mut h = Fnv::new();
    h.bytes(b);
    h.get()
}

pub fn seed_from_env() -> u64 {
    std::env::var("VERIF_SEED")
        .ok()
        .and_then(|s| s.trim().parse::<u64>().ok())
        .unwrap_or(1)
}

pub fn budget_s(default: u64) -> u64 {
    std::env::var("VERIF_BUDGET_S")
        .ok()
        .and_then(|s| s.trim().parse::<u64>().ok())
        .unwrap_or(default)
}

pub fn env_u64(name: &str, default: u64) -> u64 {
    std::env::var(name)
        .ok()
        .and_then(|s| s.trim().parse::<u64>().ok())
        .unwrap_or(default)
}

pub fn verif_dir() -> String {
    std::env::var("VERIF_DIR").unwrap_or_else(|_| "/verif".to_string())
}

pub fn workers() -> usize {
    env_u64("VERIF_WORKERS", 16) as usize
}
