//! Evidence file writer (schema: /root/.vp/EVIDENCE.schema.json).

use serde_json::{Value, json};

pub struct Evidence {
    pub property_id: String,
    pub tier: String,
    pub seed: u64,
    pub level: String,
    pub evaluations: u64,
    pub distinct_nontrivial: u64,
    pub rule: String,
    pub samples: Vec<Value>,
    pub extra: serde_json::Map<String, Value>,
    pub assumptions: Vec<String>,
    pub wall_s: f64,
    pub violations: u64,
}

impl Evidence {
    pub fn write(&self) -> std::io::Result<String> {
        let mut coverage = serde_json::Map::new();
        coverage.insert("evaluations".into(), json!(self.evaluations));
        coverage.insert("distinct_nontrivial".into(), json!(self.distinct_nontrivial));
        coverage.insert("rule".into(), json!(self.rule));
        coverage.insert("samples".into(), json!(self.samples));
        for (k, v) in &self.extra {
            coverage.insert(k.clone(), v.clone());
        }
        let doc = json!({
            "property_id": self.property_id,
            "tier": self.tier,
            "seed": self.seed,
            "level": self.level,
            "coverage": Value::Object(coverage),
            "assumptions": self.assumptions,
            "wall_s": self.wall_s,
            "violations": self.violations,
        });
        let dir = format!("{}/evidence", crate::verif_dir());
        std::fs::create_dir_all(&dir)?;
        let path = format!("{dir}/{}.json", self.property_id);
        let tmp = format!("{path}.tmp");
        std::fs::write(&tmp, serde_json::to_string_pretty(&doc).unwrap() + "\n")?;
        std::fs::rename(&tmp, &path)?;
        Ok(path)
    }
}
