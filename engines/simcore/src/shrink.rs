//! Delta debugging over a list of steps. `test` returns true while the same
//! violation class persists. Bounded by a wall-clock budget.

use std::time::{Duration, Instant};

pub fn ddmin<T: Clone>(items: Vec<T>, budget: Duration, mut test: impl FnMut(&[T]) -> bool) -> Vec<T> {
    let start = Instant::now();
    let mut cur = items;
    let mut n = 2usize;
    while cur.len() >= 2 && start.elapsed() < budget {
        let chunk = cur.len().div_ceil(n);
        let mut reduced = false;
        let mut i = 0;
        while i * chunk < cur.len() {
            if start.elapsed() >= budget {
                return cur;
            }
            let lo = i * chunk;
            let hi = ((i + 1) * chunk).min(cur.len());
            let mut cand = Vec::with_capacity(cur.len() - (hi - lo));
            cand.extend_from_slice(&cur[..lo]);
            cand.extend_from_slice(&cur[hi..]);
            if !cand.is_empty() && test(&cand) {
                cur = cand;
                n = n.saturating_sub(1).max(2);
                reduced = true;
                break;
            }
            i += 1;
        }
        if !reduced {
            if n >= cur.len() {
                break;
            }
            n = (n * 2).min(cur.len());
        }
    }
    // final pass: single removals
    let mut i = 0;
    while i < cur.len() && cur.len() > 1 && start.elapsed() < budget {
        let mut cand = cur.clone();
        cand.remove(i);
        if test(&cand) {
            cur = cand;
        } else {
            i += 1;
        }
    }
    cur
}
