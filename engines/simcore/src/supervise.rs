//! Process fan-out: the supervisor spawns worker processes (same binary), each
//! executing whole runs single-threaded. A worker prints
//!   `M <run> <trial>`  before every evaluation of an untrusted image,
//!   `V <json>`         for every violation, as soon as it is found,
//!   `R <json>`         at the end of every run (counters, hashes),
//!   `D`                when it has finished its share.
//! If a worker dies (abort, over-cap allocation, kill on hang) the death is
//! attributed to the last marker and a new worker resumes after that trial.
//! Outcomes are a function of (plan, trial) only, so this costs no determinism.

use serde_json::Value;
use std::io::{BufRead, BufReader, Read, Write};
use std::process::{Command, Stdio};
use std::sync::mpsc;
use std::time::{Duration, Instant};

#[derive(Clone, Debug)]
pub struct Death {
    pub run: u64,
    pub trial: u64,
    pub status: String,
    pub detail: String,
}

#[derive(Default, Debug)]
pub struct FanOut {
    pub violations: Vec<Value>,
    pub runs: Vec<Value>,
    pub deaths: Vec<Death>,
    pub harness_errors: Vec<String>,
    pub timed_out: bool,
}

pub struct FanCfg {
    pub exe: std::path::PathBuf,
    pub args: Vec<String>,
    pub runs: u64,
    pub workers: usize,
    pub wall_cap: Duration,
    pub hang_s: u64,
    pub max_deaths_per_worker: usize,
    pub stop_on_first_violation: bool,
}

struct WorkerResult {
    violations: Vec<Value>,
    runs: Vec<Value>,
    deaths: Vec<Death>,
    errors: Vec<String>,
    timed_out: bool,
}

fn run_worker(cfg: &FanCfg, w: usize, deadline: Instant, stop: &std::sync::atomic::AtomicBool) -> WorkerResult {
    let mut res = WorkerResult { violations: vec![], runs: vec![], deaths: vec![], errors: vec![], timed_out: false };
    let mut resume: Option<(u64, u64)> = None;
    loop {
        let mut cmd = Command::new(&cfg.exe);
        cmd.args(&cfg.args)
            .arg("--worker-id").arg(w.to_string())
            .arg("--workers").arg(cfg.workers.to_string())
            .arg("--runs").arg(cfg.runs.to_string());
        let remaining = deadline.saturating_duration_since(Instant::now());
        cmd.arg("--time-left-ms").arg(remaining.as_millis().to_string());
        if let Some((r, t)) = resume {
            cmd.arg("--resume-run").arg(r.to_string()).arg("--resume-trial").arg(t.to_string());
        }
        cmd.stdin(Stdio::null()).stdout(Stdio::piped()).stderr(Stdio::piped());
        let mut child = match cmd.spawn() {
            Ok(c) => c,
            Err(e) => {
                res.errors.push(format!("spawn worker {w}: {e}"));
                return res;
            }
        };
        let stdout = child.stdout.take().unwrap();
        let mut stderr = child.stderr.take().unwrap();
        let (tx, rx) = mpsc::channel::<Option<String>>();
        let reader = std::thread::spawn(move || {
            let br = BufReader::new(stdout);
            for line in br.lines() {
                match line {
                    Ok(l) => {
                        if tx.send(Some(l)).is_err() {
                            return;
                        }
                    }
                    Err(_) => break,
                }
            }
            let _ = tx.send(None);
        });
        let err_reader = std::thread::spawn(move || {
            let mut s = Vec::new();
            let _ = stderr.read_to_end(&mut s);
            let s = String::from_utf8_lossy(&s).to_string();
            let tail: String = s.chars().rev().take(1500).collect::<Vec<_>>().into_iter().rev().collect();
            tail
        });
        let mut last_mark: Option<(u64, u64)> = None;
        let mut in_harness = true;
        let mut quiet_since = Instant::now();
        let mut cpu_at_last_line = cpu_ticks(child.id());
        let mut done = false;
        let mut killed = None;
        loop {
            match rx.recv_timeout(Duration::from_secs(1)) {
                Ok(Some(l)) => {
                    quiet_since = Instant::now();
                    cpu_at_last_line = cpu_ticks(child.id());
                    if l.starts_with("H ") {
                        in_harness = true;
                    } else if let Some(rest) = l.strip_prefix("M ") {
                        in_harness = false;
                        let mut it = rest.split_whitespace();
                        let r = it.next().and_then(|x| x.parse().ok()).unwrap_or(0);
                        let t = it.next().and_then(|x| x.parse().ok()).unwrap_or(0);
                        last_mark = Some((r, t));
                    } else if let Some(rest) = l.strip_prefix("V ") {
                        match serde_json::from_str::<Value>(rest) {
                            Ok(v) => {
                                res.violations.push(v);
                                if cfg.stop_on_first_violation {
                                    stop.store(true, std::sync::atomic::Ordering::SeqCst);
                                }
                            }
                            Err(e) => res.errors.push(format!("worker {w}: bad V line: {e}")),
                        }
                    } else if let Some(rest) = l.strip_prefix("R ") {
                        match serde_json::from_str::<Value>(rest) {
                            Ok(v) => res.runs.push(v),
                            Err(e) => res.errors.push(format!("worker {w}: bad R line: {e}")),
                        }
                    } else if l == "D" {
                        done = true;
                    } else if let Some(rest) = l.strip_prefix("E ") {
                        res.errors.push(format!("worker {w}: {rest}"));
                    }
                }
                Ok(None) => break,
                Err(mpsc::RecvTimeoutError::Timeout) => {
                    if Instant::now() > deadline + Duration::from_secs(5) {
                        killed = Some("deadline");
                        let _ = child.kill();
                        break;
                    }
                    // A hang is judged by the worker's own CPU time, not by the wall clock, so that a loaded
                    // machine (other checks, compilers) cannot turn a slow trial into a "hang":
                    //   busy hang   = hang_s seconds of CPU consumed without a line of output;
                    //   blocked hang = no output for a long wall time while consuming (almost) no CPU.
                    // between "H" (a run is being generated and set up) and the first trial marker the work is the
                    // harness's own and may legitimately take long (a thorough-tier base history): long threshold
                    let hang_s = if in_harness { (cfg.hang_s.max(1) * 30).max(120) } else { cfg.hang_s.max(1) };
                    let used = cpu_ticks(child.id()).saturating_sub(cpu_at_last_line);
                    let quiet = quiet_since.elapsed().as_secs();
                    let busy_hang = used >= hang_s * ticks_per_s();
                    let blocked_hang = quiet >= (hang_s * 10).max(60) && used * 20 < quiet * ticks_per_s();
                    if !(busy_hang || blocked_hang) {
                        continue;
                    }
                    killed = Some("hang");
                    let _ = child.kill();
                    break;
                }
                Err(mpsc::RecvTimeoutError::Disconnected) => break,
            }
            if stop.load(std::sync::atomic::Ordering::SeqCst) && cfg.stop_on_first_violation {
                killed = Some("stop");
                let _ = child.kill();
                break;
            }
        }
        let status = child.wait();
        let _ = reader.join();
        let err_tail = err_reader.join().unwrap_or_default();
        if done {
            return res;
        }
        match killed {
            Some("stop") => return res,
            Some("deadline") => {
                res.timed_out = true;
                return res;
            }
            _ => {}
        }
        // death
        let status_s = match (&killed, status) {
            (Some(k), _) => k.to_string(),
            (None, Ok(s)) => format!("{s}"),
            (None, Err(e)) => format!("wait error {e}"),
        };
        match last_mark {
            Some((r, t)) => {
                res.deaths.push(Death { run: r, trial: t, status: status_s, detail: err_tail });
                if res.deaths.len() >= cfg.max_deaths_per_worker {
                    return res;
                }
                resume = Some((r, t + 1));
            }
            None => {
                res.errors.push(format!("worker {w} died outside any trial ({status_s}): {err_tail}"));
                return res;
            }
        }
        if Instant::now() > deadline {
            res.timed_out = true;
            return res;
        }
    }
}

/// utime + stime of a process in clock ticks (0 if it cannot be read, e.g. the process is gone)
fn cpu_ticks(pid: u32) -> u64 {
    let Ok(stat) = std::fs::read_to_string(format!("/proc/{pid}/stat")) else { return 0 };
    // fields after the parenthesised command name: state is field 3, utime 14, stime 15
    let Some(rest) = stat.rfind(')').map(|i| &stat[i + 1..]) else { return 0 };
    let f: Vec<&str> = rest.split_whitespace().collect();
    let get = |i: usize| f.get(i).and_then(|x| x.parse::<u64>().ok()).unwrap_or(0);
    get(11) + get(12)
}

fn ticks_per_s() -> u64 {
    100 // USER_HZ on Linux
}

pub fn fan_out(cfg: FanCfg) -> FanOut {
    let deadline = Instant::now() + cfg.wall_cap;
    let stop = std::sync::atomic::AtomicBool::new(false);
    let mut out = FanOut::default();
    let results: Vec<WorkerResult> = std::thread::scope(|s| {
        let handles: Vec<_> = (0..cfg.workers)
            .map(|w| {
                let cfg = &cfg;
                let stop = &stop;
                s.spawn(move || run_worker(cfg, w, deadline, stop))
            })
            .collect();
        handles.into_iter().map(|h| h.join().unwrap()).collect()
    });
    for r in results {
        out.violations.extend(r.violations);
        out.runs.extend(r.runs);
        out.deaths.extend(r.deaths);
        out.harness_errors.extend(r.errors);
        out.timed_out |= r.timed_out;
    }
    let key = |v: &Value| (v.get("run").and_then(|x| x.as_u64()).unwrap_or(u64::MAX), v.get("trial").and_then(|x| x.as_u64()).unwrap_or(0));
    out.violations.sort_by_key(key);
    out.runs.sort_by_key(key);
    out.deaths.sort_by_key(|d| (d.run, d.trial));
    out
}

/// Worker-side context, parsed from the arguments `fan_out` appends.
#[derive(Clone, Debug)]
pub struct WorkerCtx {
    pub id: u64,
    pub workers: u64,
    pub runs: u64,
    pub resume: Option<(u64, u64)>,
    pub deadline: Instant,
}

impl WorkerCtx {
    pub fn from_args(args: &[String]) -> Self {
        let get = |name: &str| -> Option<u64> {
            args.iter().position(|a| a == name).and_then(|i| args.get(i + 1)).and_then(|v| v.parse().ok())
        };
        let resume = match (get("--resume-run"), get("--resume-trial")) {
            (Some(r), Some(t)) => Some((r, t)),
            _ => None,
        };
        WorkerCtx {
            id: get("--worker-id").unwrap_or(0),
            workers: get("--workers").unwrap_or(1).max(1),
            runs: get("--runs").unwrap_or(1),
            resume,
            deadline: Instant::now() + Duration::from_millis(get("--time-left-ms").unwrap_or(3_600_000)),
        }
    }

    /// Run indices of this worker that are still to do.
    pub fn my_runs(&self) -> Vec<u64> {
        (0..self.runs)
            .filter(|r| r % self.workers == self.id)
            .filter(|r| self.resume.map(|(rr, _)| *r >= rr).unwrap_or(true))
            .collect()
    }

    /// First trial to evaluate in `run` (trials before it were evaluated by a predecessor).
    pub fn first_trial(&self, run: u64) -> u64 {
        match self.resume {
            Some((r, t)) if r == run => t,
            _ => 0,
        }
    }

    pub fn out_of_time(&self) -> bool {
        Instant::now() >= self.deadline
    }

    /// The worker is about to generate and set up run `run` (harness work: plan generation, the live history that
    /// produces a base image). Until the next trial marker the supervisor applies the long threshold.
    pub fn harness_phase(&self, run: u64) {
        let mut o = std::io::stdout().lock();
        let _ = writeln!(o, "H {run}");
        let _ = o.flush();
    }

    pub fn mark(&self, run: u64, trial: u64) {
        let mut o = std::io::stdout().lock();
        let _ = writeln!(o, "M {run} {trial}");
        let _ = o.flush();
    }

    pub fn violation(&self, v: &Value) {
        let mut o = std::io::stdout().lock();
        let _ = writeln!(o, "V {}", serde_json::to_string(v).unwrap());
        let _ = o.flush();
    }

    pub fn run_done(&self, v: &Value) {
        let mut o = std::io::stdout().lock();
        let _ = writeln!(o, "R {}", serde_json::to_string(v).unwrap());
        let _ = o.flush();
    }

    pub fn error(&self, msg: &str) {
        let mut o = std::io::stdout().lock();
        let _ = writeln!(o, "E {}", msg.replace('\n', " | "));
        let _ = o.flush();
    }

    pub fn done(&self) {
        let mut o = std::io::stdout().lock();
        let _ = writeln!(o, "D");
        let _ = o.flush();
    }
}
