//! /verif/known_findings.jsonl — committed, read-only at run time.

use serde::{Deserialize, Serialize};

#[derive(Clone, Debug, Serialize, Deserialize)]
pub struct Finding {
    pub status: String, // "known" | "fixed"
    pub property: String,
    #[serde(default)]
    pub signature: String,
    #[serde(default)]
    pub replay: String,
    #[serde(default)]
    pub commit: String,
    pub what: String,
}

pub fn load() -> Vec<Finding> {
    let path = format!("{}/known_findings.jsonl", crate::verif_dir());
    let Ok(text) = std::fs::read_to_string(&path) else {
        return vec![];
    };
    text.lines()
        .filter(|l| !l.trim().is_empty())
        .filter_map(|l| serde_json::from_str::<Finding>(l).ok())
        .collect()
}

pub fn known_for(property: &str) -> Vec<Finding> {
    load()
        .into_iter()
        .filter(|f| f.status == "known" && f.property == property)
        .collect()
}
