//! splitmix64 seeding + xoshiro256**. Local so that no external crate's
//! algorithm change can alter what a seed means.

#[derive(Clone, Debug)]
pub struct Rng {
    s: [u64; 4],
}

fn splitmix(x: &mut u64) -> u64 {
    *x = x.wrapping_add(0x9E3779B97F4A7C15);
    let mut z = *x;
    z = (z ^ (z >> 30)).wrapping_mul(0xBF58476D1CE4E5B9);
    z = (z ^ (z >> 27)).wrapping_mul(0x94D049BB133111EB);
    z ^ (z >> 31)
}

impl Rng {
    pub fn new(seed: u64) -> Self {
        let mut x = seed;
        Rng {
            s: [
                splitmix(&mut x),
                splitmix(&mut x),
                splitmix(&mut x),
                splitmix(&mut x),
            ],
        }
    }

    /// Independent stream derived from (seed, a, b): run index and purpose.
    pub fn derive(seed: u64, a: u64, b: u64) -> Self {
        let mut x = seed ^ 0xD6E8FEB86659FD93;
        let s1 = splitmix(&mut x);
        let mut y = s1 ^ a.wrapping_mul(0x9E3779B97F4A7C15);
        let s2 = splitmix(&mut y);
        let mut z = s2 ^ b.wrapping_mul(0xC2B2AE3D27D4EB4F);
        Rng::new(splitmix(&mut z))
    }

    pub fn next(&mut self) -> u64 {
        let r = self.s[1].wrapping_mul(5).rotate_left(7).wrapping_mul(9);
        let t = self.s[1] << 17;
        self.s[2] ^= self.s[0];
        self.s[3] ^= self.s[1];
        self.s[1] ^= self.s[2];
        self.s[0] ^= self.s[3];
        self.s[2] ^= t;
        self.s[3] = self.s[3].rotate_left(45);
        r
    }

    /// Uniform in 0..n (n > 0).
    pub fn below(&mut self, n: u64) -> u64 {
        debug_assert!(n > 0);
        if n <= 1 {
            return 0;
        }
        // multiply-shift; bias is irrelevant here but determinism is not
        ((self.next() as u128 * n as u128) >> 64) as u64
    }

    pub fn range(&mut self, lo: u64, hi_incl: u64) -> u64 {
        lo + self.below(hi_incl - lo + 1)
    }

    pub fn chance(&mut self, num: u64, den: u64) -> bool {
        self.below(den) < num
    }

    pub fn pick<'a, T>(&mut self, v: &'a [T]) -> &'a T {
        &v[self.below(v.len() as u64) as usize]
    }

    /// Index drawn according to integer weights.
    pub fn weighted(&mut self, w: &[u64]) -> usize {
        let total: u64 = w.iter().sum();
        let mut x = self.below(total.max(1));
        for (i, wi) in w.iter().enumerate() {
            if x < *wi {
                return i;
            }
            x -= *wi;
        }
        w.len() - 1
    }

    pub fn shuffle<T>(&mut self, v: &mut [T]) {
        for i in (1..v.len()).rev() {
            let j = self.below(i as u64 + 1) as usize;
            v.swap(i, j);
        }
    }

    pub fn bytes(&mut self, n: usize) -> Vec<u8> {
        (0..n).map(|_| self.next() as u8).collect()
    }
}
