//! Generic supervisor / worker / replay logic shared by all dbsim checks.

use super::common::*;
use serde_json::{Value, json};
use crate::evidence::Evidence;
use crate::supervise::{FanCfg, WorkerCtx, fan_out};
use std::collections::{BTreeMap, BTreeSet};
use std::process::{Command, Stdio};
use std::time::{Duration, Instant};

fn tmp_dir() -> String {
    let d = format!("{}/target/tmp", crate::verif_dir());
    let _ = std::fs::create_dir_all(&d);
    d
}

pub fn worker(eng: &Engine, args: &[String]) -> i32 {
    install_panic_hook();
    let id = &args[2];
    let tier = Tier::parse(&args[3]);
    let seed: u64 = args[4].parse().unwrap_or(1);
    let Some(def) = (eng.find)(id) else { return 2 };
    let ctx = WorkerCtx::from_args(args);
    set_alloc_cap(Some(eng.alloc_cap));
    for run in ctx.my_runs() {
        if ctx.out_of_time() {
            break;
        }
        ctx.harness_phase(run);
        let plan = (def.generate)(seed, run, tier);
        let mut trials = Trials { ctx: Some(&ctx), run, first: ctx.first_trial(run), next: 0 };
        let rep = (def.exec)(&plan, &mut trials);
        for v in &rep.viols {
            ctx.violation(&viol_json(run, v, &plan));
        }
        let mut r = json!({
            "run": run, "evals": rep.evals, "nontrivial": rep.nontrivial,
            "prog_hash": rep.prog_hash, "log_hash": rep.log_hash, "counters": rep.counters,
            "viols": rep.viols.iter().map(|v| format!("{}:{}", v.property, v.class)).collect::<Vec<_>>(),
        });
        if let Some(k) = &rep.known_cut {
            r["known_cut"] = json!(k);
        }
        if run < 2 {
            r["sample"] = plan.clone();
        }
        ctx.run_done(&r);
    }
    ctx.done();
    0
}


fn load_plan(file: &str) -> Result<(Value, Option<Value>), String> {
    let text = std::fs::read_to_string(file).map_err(|e| format!("{file}: {e}"))?;
    let doc: Value = serde_json::from_str(&text).map_err(|e| format!("{file}: {e}"))?;
    if doc.get("plan").is_some() && doc.get("property").is_some() {
        Ok((doc["plan"].clone(), Some(doc)))
    } else {
        Ok((doc, None))
    }
}

pub fn exec_plan(eng: &Engine, id: &str, file: &str) -> i32 {
    install_panic_hook();
    let Some(def) = (eng.find)(id) else { return 2 };
    let (plan, _) = match load_plan(file) {
        Ok(p) => p,
        Err(e) => {
            eprintln!("{e}");
            return 2;
        }
    };
    set_alloc_cap(Some(eng.alloc_cap));
    let mut t = Trials::replay();
    let rep = (def.exec)(&plan, &mut t);
    for v in &rep.viols {
        println!("V {}", serde_json::to_string(&json!({"property": v.property, "class": v.class, "detail": v.detail, "trial": v.trial})).unwrap());
    }
    println!("R {}", serde_json::to_string(&json!({"evals": rep.evals, "nontrivial": rep.nontrivial, "log_hash": rep.log_hash, "known_cut": rep.known_cut})).unwrap());
    println!("D");
    0
}

#[derive(Debug, Default)]
pub struct Outcome {
    pub viols: Vec<(String, String, String)>,
    pub died: Option<String>,
    pub log_hash: u64,
}

impl Outcome {
    pub fn classes(&self, property: &str) -> Vec<String> {
        let mut v: Vec<String> = self.viols.iter().filter(|(p, _, _)| p == property).map(|(_, c, _)| c.clone()).collect();
        if let Some(d) = &self.died {
            v.push(d.clone());
        }
        v
    }
}

fn death_class(status: &str, stderr: &str) -> String {
    if stderr.lines().any(|l| l.starts_with("OVERCAP ")) {
        let site = stderr
            .lines()
            .find(|l| l.starts_with("OVERCAP-VIA "))
            .and_then(|l| l[12..].split(" <- ").next())
            .map(|f| {
                let mut out = String::new();
                let mut depth = 0;
                for c in f.chars() {
                    match c {
                        '<' => depth += 1,
                        '>' => depth -= 1,
                        _ if depth == 0 => out.push(c),
                        _ => {}
                    }
                }
                out
            })
            .unwrap_or_else(|| "?".into());
        return format!("process-death:allocation-over-cap@{site}");
    }
    if status == "hang" {
        return "process-death:hang".to_string();
    }
    if stderr.contains("memory allocation of") {
        return "process-death:allocation-failure".to_string();
    }
    if stderr.contains("stack overflow") {
        return "process-death:stack-overflow".to_string();
    }
    "process-death:abort".to_string()
}

pub fn run_plan_file(id: &str, file: &str, timeout_s: u64) -> Outcome {
    let exe = std::env::current_exe().unwrap();
    let mut child = Command::new(exe)
        .arg("exec-plan")
        .arg(id)
        .arg(file)
        .stdin(Stdio::null())
        .stdout(Stdio::piped())
        .stderr(Stdio::piped())
        .spawn()
        .expect("spawn exec-plan");
    let start = Instant::now();
    let mut hung = false;
    loop {
        match child.try_wait() {
            Ok(Some(_)) => break,
            Ok(None) => {
                if start.elapsed() > Duration::from_secs(timeout_s) {
                    let _ = child.kill();
                    hung = true;
                    break;
                }
                std::thread::sleep(Duration::from_millis(2));
            }
            Err(_) => break,
        }
    }
    let out = child.wait_with_output().expect("wait exec-plan");
    let stdout = String::from_utf8_lossy(&out.stdout);
    let stderr = String::from_utf8_lossy(&out.stderr);
    let mut o = Outcome::default();
    let mut done = false;
    for l in stdout.lines() {
        if let Some(r) = l.strip_prefix("V ")
            && let Ok(v) = serde_json::from_str::<Value>(r)
        {
            o.viols.push((
                v["property"].as_str().unwrap_or("").to_string(),
                v["class"].as_str().unwrap_or("").to_string(),
                v["detail"].as_str().unwrap_or("").to_string(),
            ));
        } else if let Some(r) = l.strip_prefix("R ")
            && let Ok(v) = serde_json::from_str::<Value>(r)
        {
            o.log_hash = v["log_hash"].as_u64().unwrap_or(0);
        } else if l == "D" {
            done = true;
        }
    }
    if !done {
        o.died = Some(death_class(if hung { "hang" } else { "exit" }, &stderr));
    }
    o
}

fn run_plan(id: &str, plan: &Value, tag: &str) -> Outcome {
    let file = format!("{}/plan-{}-{}-{}.json", tmp_dir(), id, std::process::id(), tag);
    std::fs::write(&file, serde_json::to_string(plan).unwrap()).unwrap();
    let o = run_plan_file(id, &file, 120);
    let _ = std::fs::remove_file(&file);
    o
}

pub fn replay(file: &str) -> i32 {
    let (_, doc) = match load_plan(file) {
        Ok(p) => p,
        Err(e) => {
            eprintln!("harness error: {e}");
            return 2;
        }
    };
    let Some(doc) = doc else {
        eprintln!("harness error: {file} is not a replay file (needs property + plan)");
        return 2;
    };
    let id = doc["property"].as_str().unwrap_or("").to_string();
    let want = doc["class"].as_str().unwrap_or("").to_string();
    let o = run_plan_file(&id, file, 600);
    let classes = o.classes(&id);
    if classes.is_empty() {
        println!("replay {file}: no violation of {id}");
        return 0;
    }
    for (p, c, d) in &o.viols {
        if *p == id {
            println!("replay: {p} {c}: {d}");
        }
    }
    if let Some(d) = &o.died {
        println!("replay: {id} {d}");
    }
    let same = classes.iter().any(|c| *c == want);
    println!("VIOLATION property={id} replay={file} class={} recorded_class_reproduced={same}", classes[0]);
    1
}

fn get_steps<'a>(plan: &'a Value, ptr: &str) -> Vec<Value> {
    plan.pointer(ptr).and_then(|v| v.as_array()).cloned().unwrap_or_default()
}

fn with_steps(plan: &Value, ptr: &str, steps: &[Value]) -> Value {
    let mut p = plan.clone();
    if let Some(slot) = p.pointer_mut(ptr) {
        *slot = Value::Array(steps.to_vec());
    }
    p
}

fn shrink(def: &CheckDef, plan: &Value, class: &str, budget: Duration) -> Value {
    let steps = get_steps(plan, def.steps);
    if steps.len() < 2 {
        return plan.clone();
    }
    let mut n = 0u64;
    let min = crate::shrink::ddmin(steps, budget, |cand| {
        n += 1;
        let p = with_steps(plan, def.steps, cand);
        run_plan(def.id, &p, &format!("s{n}")).classes(def.id).iter().any(|c| c == class)
    });
    with_steps(plan, def.steps, &min)
}

struct Agg {
    runs: u64,
    evals: u64,
    nontrivial: u64,
    programs: BTreeSet<u64>,
    counters: BTreeMap<String, u64>,
    samples: Vec<Value>,
    hashes: BTreeMap<u64, (u64, u64, Vec<String>)>,
    known_cut: u64,
}

fn aggregate(runs: &[Value]) -> Agg {
    let mut a = Agg { runs: 0, evals: 0, nontrivial: 0, programs: BTreeSet::new(), counters: BTreeMap::new(), samples: vec![], hashes: BTreeMap::new(), known_cut: 0 };
    for r in runs {
        a.runs += 1;
        a.evals += r["evals"].as_u64().unwrap_or(0);
        let ph = r["prog_hash"].as_u64().unwrap_or(0);
        if a.programs.insert(ph) {
            a.nontrivial += r["nontrivial"].as_u64().unwrap_or(0);
        }
        if let Some(c) = r["counters"].as_object() {
            for (k, v) in c {
                let e = a.counters.entry(k.clone()).or_insert(0);
                if k.starts_with("max_") {
                    *e = (*e).max(v.as_u64().unwrap_or(0));
                } else {
                    *e += v.as_u64().unwrap_or(0);
                }
            }
        }
        if let Some(s) = r.get("sample")
            && a.samples.len() < 2
        {
            a.samples.push(s.clone());
        }
        if r.get("known_cut").is_some() {
            a.known_cut += 1;
        }
        let viols: Vec<String> = r["viols"].as_array().map(|v| v.iter().filter_map(|x| x.as_str().map(|s| s.to_string())).collect()).unwrap_or_default();
        a.hashes.insert(r["run"].as_u64().unwrap_or(0), (r["log_hash"].as_u64().unwrap_or(0), r["evals"].as_u64().unwrap_or(0), viols));
    }
    a
}

fn fan(eng: &Engine, def: &CheckDef, tier: Tier, seed: u64, runs: u64, workers: usize, cap_s: u64, stop_first: bool) -> crate::supervise::FanOut {
    fan_out(FanCfg {
        exe: std::env::current_exe().unwrap(),
        args: vec!["worker".into(), def.id.into(), tier.name().into(), seed.to_string()],
        runs,
        workers,
        wall_cap: Duration::from_secs(cap_s),
        hang_s: crate::env_u64("VERIF_HANG_S", (eng.hang_s)(def.id)),
        max_deaths_per_worker: 30,
        stop_on_first_violation: stop_first,
    })
}

/// Runs the first `n` runs twice with different worker counts and compares event-log hashes and verdicts.
fn determinism(eng: &Engine, def: &CheckDef, tier: Tier, seed: u64, n: u64) -> Result<u64, String> {
    let a = fan(eng, def, tier, seed, n, 5, 300, false);
    let b = fan(eng, def, tier, seed, n, 2, 300, false);
    let (ha, hb) = (aggregate(&a.runs).hashes, aggregate(&b.runs).hashes);
    if ha.len() as u64 != n || hb.len() as u64 != n {
        // deaths make runs incomplete; compare what both have
    }
    // a run in which a worker was killed as hung is cut at a point that depends on CPU accounting, not on the seed
    let hung: BTreeSet<u64> = a.deaths.iter().chain(b.deaths.iter()).filter(|d| d.status == "hang").map(|d| d.run).collect();
    let mut compared = 0;
    for (run, va) in &ha {
        if hung.contains(run) {
            continue;
        }
        if let Some(vb) = hb.get(run) {
            compared += 1;
            if va != vb {
                return Err(format!("run {run} differs between two executions: {va:?} vs {vb:?}"));
            }
        }
    }
    Ok(compared)
}

pub fn selftest(eng: &Engine, id: &str, n: u64) -> i32 {
    let Some(def) = (eng.find)(id) else { return 2 };
    match determinism(eng, &def, Tier::Quick, crate::seed_from_env(), n) {
        Ok(c) => {
            println!("selftest {id}: {c} runs compared, identical");
            0
        }
        Err(e) => {
            println!("selftest {id}: NONDETERMINISM {e}");
            2
        }
    }
}

pub fn check(eng: &Engine, id: &str, tier: Tier) -> i32 {
    let t0 = Instant::now();
    let seed = crate::seed_from_env();
    let Some(def) = (eng.find)(id) else {
        eprintln!("harness error: {} does not serve {id}", eng.name);
        return 2;
    };
    println!("[{}] property={id} tier={} VERIF_SEED={seed}", eng.name, tier.name());

    // ---- known findings: replay each, report, remember signatures
    let known = crate::findings::known_for(id);
    let mut known_sigs: BTreeSet<String> = BTreeSet::new();
    for f in &known {
        known_sigs.insert(f.signature.clone());
        let file = format!("{}/{}", crate::verif_dir(), f.replay);
        let o = run_plan_file(id, &file, 600);
        if o.classes(id).iter().any(|c| *c == f.signature) {
            println!("KNOWN-FINDING: property={id} {} [signature {}; replay {}]", f.what, f.signature, f.replay);
        } else {
            println!("note: known finding '{}' of {id} did not reproduce from {} (classes seen: {:?})", f.signature, f.replay, o.classes(id));
        }
    }

    // ---- search
    let runs = crate::env_u64("VERIF_RUNS", (def.runs)(tier));
    let cap = crate::budget_s((def.wall_cap_s)(tier));
    let out = fan(eng, &def, tier, seed, runs, crate::workers(), cap, false);
    let mut agg = aggregate(&out.runs);
    // samples are actual plans of this run; long step lists are cut to their first 30 entries
    for sample in agg.samples.iter_mut() {
        let total = get_steps(sample, def.steps).len();
        if total > 30 {
            let head: Vec<Value> = get_steps(sample, def.steps).into_iter().take(30).collect();
            *sample = with_steps(sample, def.steps, &head);
            sample["_steps_shown_of"] = json!(format!("30 of {total}"));
        }
    }

    let mut harness: Vec<String> = out.harness_errors.clone();
    let mut cands: Vec<(u64, u64, String, String, Value)> = vec![]; // run, trial, class, detail, plan
    for v in &out.violations {
        let p = v["property"].as_str().unwrap_or("");
        let class = v["class"].as_str().unwrap_or("").to_string();
        if p == "HARNESS" {
            harness.push(format!("run {}: {} {}", v["run"], class, v["detail"].as_str().unwrap_or("")));
        } else if p == id {
            cands.push((v["run"].as_u64().unwrap_or(0), v["trial"].as_u64().unwrap_or(0), class, v["detail"].as_str().unwrap_or("").to_string(), v["plan"].clone()));
        }
    }
    let mut hang_obs = 0u64;
    let mut death_hist: BTreeMap<String, u64> = BTreeMap::new();
    for d in &out.deaths {
        let class = death_class(&d.status, &d.detail);
        *death_hist.entry(class.clone()).or_insert(0) += 1;
        if std::env::var("VERIF_DEBUG").is_ok() {
            println!("death: run {} trial {} {class}", d.run, d.trial);
        }
        if class.ends_with("hang") && !def_hang_is_violation(id) {
            hang_obs += 1;
            continue;
        }
        cands.push((d.run, d.trial, class, format!("worker died in run {} trial {}: {}", d.run, d.trial, d.detail.lines().filter(|l| l.starts_with("OVERCAP") || l.contains("panicked") || l.contains("memory allocation")).collect::<Vec<_>>().join(" | ")), (def.generate)(seed, d.run, tier)));
    }
    cands.sort_by(|a, b| (a.0, a.1).cmp(&(b.0, b.1)));
    let known_hits = cands.iter().filter(|c| known_sigs.contains(&c.2)).count() as u64;
    let new: Vec<_> = cands.iter().filter(|c| !known_sigs.contains(&c.2)).collect();

    // ---- determinism self-test on a prefix of the runs
    let st_runs = match tier {
        Tier::Quick => 16.min(runs),
        Tier::Thorough => 300.min(runs),
    };
    let st = if new.is_empty() { determinism(eng, &def, tier, seed, st_runs) } else { Ok(0) };
    if let Err(e) = &st {
        harness.push(format!("determinism self-test failed: {e}"));
    }

    let wall = t0.elapsed().as_secs_f64();
    let mut extra = serde_json::Map::new();
    let per_hour = |n: u64| (n as f64 / wall.max(0.001) * 3600.0) as u64;
    extra.insert("runs".into(), json!(agg.runs));
    extra.insert("runs_requested".into(), json!(runs));
    extra.insert("runs_per_hour".into(), json!(per_hour(agg.runs)));
    extra.insert("evaluation_unit".into(), json!(def.eval_unit));
    extra.insert("evaluations_per_hour".into(), json!(per_hour(agg.evals)));
    extra.insert("distinct_programs".into(), json!(agg.programs.len()));
    extra.insert("simulated_time".into(), json!(eng.simulated_time));
    let (faults, rest): (BTreeMap<_, _>, BTreeMap<_, _>) = agg.counters.iter().map(|(k, v)| (k.clone(), *v)).partition(|(k, _)| k.starts_with("fault."));
    let (probes, other): (BTreeMap<_, _>, BTreeMap<_, _>) = rest.into_iter().partition(|(k, _)| k.starts_with("probe."));
    extra.insert("faults_fired".into(), json!(faults));
    extra.insert("probes_hit".into(), json!(probes));
    extra.insert("counters".into(), json!(other));
    extra.insert("components_real".into(), json!(def.real));
    extra.insert("components_stub".into(), json!(def.stub));
    extra.insert("worker_deaths".into(), json!(out.deaths.len()));
    extra.insert("worker_deaths_by_class".into(), json!(death_hist));
    extra.insert("hang_observations".into(), json!(hang_obs));
    extra.insert("known_finding_hits".into(), json!(known_hits));
    extra.insert("runs_cut_by_known_finding".into(), json!(agg.known_cut));
    extra.insert("budget_exhausted".into(), json!(out.timed_out));
    extra.insert("determinism_selftest_runs_compared".into(), json!(st.clone().unwrap_or(0)));
    extra.insert("exhaustive".into(), json!(false));

    let mut ev = Evidence {
        property_id: id.into(),
        tier: tier.name().into(),
        seed,
        level: def.level.into(),
        evaluations: agg.evals,
        distinct_nontrivial: agg.nontrivial,
        rule: def.rule.into(),
        samples: agg.samples.clone(),
        extra,
        assumptions: def.assumptions.iter().map(|s| s.to_string()).collect(),
        wall_s: wall,
        violations: new.len() as u64,
    };

    if !harness.is_empty() && new.is_empty() {
        for h in harness.iter().take(10) {
            eprintln!("harness error: {h}");
        }
        ev.extra.insert("harness_errors".into(), json!(harness));
        let _ = ev.write();
        return 2;
    }

    if !new.is_empty() {
        let mut hist: BTreeMap<String, u64> = BTreeMap::new();
        for c in &new {
            *hist.entry(c.2.clone()).or_insert(0) += 1;
        }
        println!("violation classes: {hist:?}");
        if std::env::var("VERIF_DEBUG").is_ok() {
            for c in &new {
                println!("violation: run {} trial {} {} :: {}", c.0, c.1, c.2, c.3.chars().take(200).collect::<String>());
            }
        }
    }
    if let Some(first) = new.first() {
        let (run, _trial, class, detail, plan) = (first.0, first.1, &first.2, &first.3, &first.4);
        println!("violation in run {run}: {class}: {detail}");
        println!("minimising ({} steps) ...", get_steps(plan, def.steps).len());
        let min = shrink(&def, plan, class, Duration::from_secs(match tier {
            Tier::Quick => 40,
            Tier::Thorough => 180,
        }));
        let o = run_plan(id, &min, "final");
        let detail_min = o.viols.iter().find(|(p, c, _)| p == id && c == class).map(|(_, _, d)| d.clone()).unwrap_or_else(|| detail.clone());
        // a check that reports the exact scheduler decisions (shuttle) gets them pinned into the replay plan
        let mut min = min;
        if let Some(i) = detail_min.find("[shuttle schedule: ")
            && min.get("schedule").is_some()
        {
            let sched = detail_min[i + 19..].trim_end_matches(']').to_string();
            let mut pinned = min.clone();
            pinned["schedule"] = json!(sched);
            if run_plan(id, &pinned, "pinned").classes(id).iter().any(|c| c == class) {
                min = pinned;
            }
        }
        let dir = format!("{}/replays", crate::verif_dir());
        let _ = std::fs::create_dir_all(&dir);
        let path = format!("{dir}/{id}-seed{seed}-run{run}.json");
        let doc = json!({"property": id, "engine": eng.name, "seed": seed, "run": run, "tier": tier.name(), "class": class, "detail": detail_min,
            "steps_before_minimisation": get_steps(plan, def.steps).len(), "steps": get_steps(&min, def.steps).len(), "plan": min});
        std::fs::write(&path, serde_json::to_string_pretty(&doc).unwrap()).unwrap();
        // fresh-process confirmation
        let conf = run_plan_file(id, &path, 600);
        let reproduced = conf.classes(id).iter().any(|c| c == class);
        ev.samples.push(json!({"violation": {"class": class, "detail": detail_min, "replay": path}}));
        let _ = ev.write();
        if !reproduced {
            eprintln!("harness error: minimised replay {path} did not reproduce {class} in a fresh process (saw {:?})", conf.classes(id));
            return 2;
        }
        println!("{} new violation(s); first minimised to {} step(s): {class}: {detail_min}", new.len(), get_steps(&min, def.steps).len());
        println!("VIOLATION property={id} replay={path}");
        return 1;
    }

    match ev.write() {
        Ok(p) => println!("[{}] {id} held: {} runs, {} {} ({} distinct non-trivial), {:.1}s; evidence {p}", eng.name, agg.runs, agg.evals, def.eval_unit, agg.nontrivial, wall),
        Err(e) => {
            eprintln!("harness error: cannot write evidence: {e}");
            return 2;
        }
    }
    0
}

/// A query that never returns contradicts C19 (and C01-C03, whose statements require reopening to succeed);
/// for the other properties it is recorded as an observation and the run is skipped.
fn def_hang_is_violation(id: &str) -> bool {
    matches!(id, "C01" | "C02" | "C03" | "C19")
}
