//! Generic check harness shared by all engines: supervisor (fan-out over worker processes,
//! known findings, minimisation, fresh-process confirmation, evidence), worker loop, replay.

pub mod common;
pub mod supervisor;

pub use common::*;

/// Command-line dispatch shared by the engine binaries:
///   <engine> check <Cxx> <quick|thorough> | worker ... | replay <file> | exec-plan <Cxx> <file> | selftest <Cxx> | gen-plan <Cxx> <tier> <seed> <run>
pub fn main_dispatch(eng: &Engine) -> i32 {
    let args: Vec<String> = std::env::args().collect();
    match args.get(1).map(|s| s.as_str()) {
        Some("check") => supervisor::check(eng, &args[2], Tier::parse(args.get(3).map(|s| s.as_str()).unwrap_or("quick"))),
        Some("worker") => supervisor::worker(eng, &args),
        Some("replay") => supervisor::replay(&args[2]),
        Some("exec-plan") => supervisor::exec_plan(eng, &args[2], &args[3]),
        Some("gen-plan") => {
            let def = (eng.find)(&args[2]).expect("unknown check");
            let plan = (def.generate)(args[4].parse().unwrap(), args[5].parse().unwrap(), Tier::parse(&args[3]));
            println!("{}", serde_json::to_string(&plan).unwrap());
            0
        }
        Some("selftest") => supervisor::selftest(eng, &args[2], args.get(3).and_then(|s| s.parse().ok()).unwrap_or(40)),
        _ => {
            eprintln!("usage: {} check|worker|replay|exec-plan|gen-plan|selftest ...", eng.name);
            2
        }
    }
}
