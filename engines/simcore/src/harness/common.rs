//! Shared types for all engines: tiers, violations, run reports, trial markers, panic capture, allocation cap, check definitions.

use serde_json::{Value, json};
use crate::supervise::WorkerCtx;
use std::cell::RefCell;
use std::collections::BTreeMap;
use std::sync::atomic::{AtomicUsize, Ordering};

#[derive(Clone, Copy, Debug, PartialEq, Eq)]
pub enum Tier {
    Quick,
    Thorough,
}

impl Tier {
    pub fn parse(s: &str) -> Tier {
        if s == "thorough" { Tier::Thorough } else { Tier::Quick }
    }
    pub fn name(&self) -> &'static str {
        match self {
            Tier::Quick => "quick",
            Tier::Thorough => "thorough",
        }
    }
}

#[derive(Clone, Debug)]
pub struct Viol {
    pub property: String,
    pub class: String,
    pub detail: String,
    pub trial: u64,
}

#[derive(Default, Debug)]
pub struct RunReport {
    pub viols: Vec<Viol>,
    /// cases evaluated (crash points, steps compared, schedules ...)
    pub evals: u64,
    /// of those, distinct and non-trivial by the check's rule
    pub nontrivial: u64,
    pub prog_hash: u64,
    pub log_hash: u64,
    pub counters: BTreeMap<String, u64>,
    pub known_cut: Option<String>,
}

impl RunReport {
    pub fn count(&mut self, k: &str, n: u64) {
        if n > 0 {
            *self.counters.entry(k.to_string()).or_insert(0) += n;
        }
    }
    /// Merges named counters (e.g. branch probes) under a prefix.
    pub fn add_prefixed(&mut self, prefix: &str, items: impl IntoIterator<Item = (String, u64)>) {
        for (k, v) in items {
            *self.counters.entry(format!("{prefix}{k}")).or_insert(0) += v;
        }
    }
}

/// Marker interface: the worker prints `M run trial` before an untrusted trial; replay does not.
pub struct Trials<'a> {
    pub ctx: Option<&'a WorkerCtx>,
    pub run: u64,
    pub first: u64,
    pub next: u64,
}

impl<'a> Trials<'a> {
    pub fn replay() -> Trials<'static> {
        Trials { ctx: None, run: 0, first: 0, next: 0 }
    }
    /// Starts the next trial; false = already evaluated by a predecessor worker (skip it).
    pub fn begin(&mut self) -> Option<u64> {
        let t = self.next;
        self.next += 1;
        if t < self.first {
            return None;
        }
        if let Some(c) = self.ctx {
            c.mark(self.run, t);
        }
        Some(t)
    }
}

// ---------------------------------------------------------------- panics

thread_local! {
    static LAST_PANIC: RefCell<Option<String>> = const { RefCell::new(None) };
    static SITE: RefCell<Option<String>> = const { RefCell::new(None) };
    static SITES: RefCell<BTreeMap<String, String>> = const { RefCell::new(BTreeMap::new()) };
}

fn strip_generics(f: &str) -> String {
    // "agdb::storage::Storage<D>::read_records" -> "agdb::storage::Storage::read_records"
    let mut out = String::new();
    let mut depth = 0;
    for c in f.chars() {
        match c {
            '<' => depth += 1,
            '>' => depth -= 1,
            _ if depth == 0 => out.push(c),
            _ => {}
        }
    }
    out
}

/// Signature of the last caught panic: the innermost agdb function plus the normalised message.
pub fn panic_class(msg: &str) -> String {
    let site = SITE.with(|s| s.borrow_mut().take()).unwrap_or_else(|| "?".into());
    let body = msg.splitn(2, ": ").nth(1).unwrap_or(msg);
    let body = body.split(" [via ").next().unwrap_or(body);
    let body = body.split(" [in ").next().unwrap_or(body);
    format!("panic@{site}: {}", normalise(body))
}

pub fn install_panic_hook() {
    std::panic::set_hook(Box::new(|info| {
        let loc = info
            .location()
            .map(|l| {
                let f = l.file();
                let f = f.rsplit("/repo/").next().unwrap_or(f);
                format!("{f}:{}", l.line())
            })
            .unwrap_or_else(|| "?".into());
        let msg = if let Some(s) = info.payload().downcast_ref::<&str>() {
            s.to_string()
        } else if let Some(s) = info.payload().downcast_ref::<String>() {
            s.clone()
        } else if info.payload().downcast_ref::<BudgetExceeded>().is_some() {
            "BUDGET".to_string()
        } else {
            "non-string payload".to_string()
        };
        let mut trace = String::new();
        if msg != "BUDGET" {
            // first agdb frames: the call site is the stable part of a panic's identity (line numbers are not).
            // Symbolising a backtrace costs tens of milliseconds, so panics raised at a location inside agdb
            // (where the innermost agdb function is determined by the location) are resolved once per location.
            let cached = if loc.starts_with("agdb") { SITES.with(|c| c.borrow().get(&loc).cloned()) } else { None };
            match cached {
                Some(site) => {
                    SITE.with(|s| *s.borrow_mut() = Some(site.clone()));
                    trace = format!(" [in {site}]");
                }
                None => {
                    let bt = std::backtrace::Backtrace::force_capture().to_string();
                    let frames: Vec<String> = bt.lines().map(|l| l.trim()).filter(|l| l.contains("agdb::") && !l.contains("dbsim") && !l.contains("srvsim::drive")).take(4).map(|l| l.splitn(2, ": ").nth(1).unwrap_or(l).to_string()).collect();
                    if let Some(f) = frames.first() {
                        let site = strip_generics(f);
                        if loc.starts_with("agdb") {
                            SITES.with(|c| c.borrow_mut().insert(loc.clone(), site.clone()));
                        }
                        SITE.with(|s| *s.borrow_mut() = Some(site));
                    }
                    trace = format!(" [via {}]", frames.join(" <- "));
                }
            }
        }
        LAST_PANIC.with(|p| *p.borrow_mut() = Some(format!("{loc}: {msg}{trace}")));
    }));
}

/// Marker payload: a seam unwinds with it when a step budget is exceeded (bounded liveness).
pub struct BudgetExceeded;

pub enum Caught<T> {
    Ok(T),
    Panic(String),
    Budget,
}

/// Runs `f`, turning a panic into a value carrying the panic site.
pub fn catch<T>(f: impl FnOnce() -> T) -> Caught<T> {
    LAST_PANIC.with(|p| *p.borrow_mut() = None);
    match std::panic::catch_unwind(std::panic::AssertUnwindSafe(f)) {
        Ok(v) => Caught::Ok(v),
        Err(e) => {
            if e.downcast_ref::<BudgetExceeded>().is_some() {
                return Caught::Budget;
            }
            let s = LAST_PANIC.with(|p| p.borrow_mut().take()).unwrap_or_else(|| "panic".into());
            Caught::Panic(s)
        }
    }
}

/// Normalises a panic message into a signature: digits collapsed.
pub fn normalise(msg: &str) -> String {
    let mut out = String::new();
    let mut last_digit = false;
    for c in msg.chars() {
        if c.is_ascii_digit() {
            if !last_digit {
                out.push('N');
            }
            last_digit = true;
        } else {
            out.push(c);
            last_digit = false;
        }
    }
    out.chars().take(160).collect()
}

// ---------------------------------------------------------------- allocation cap

pub struct CapAlloc;

static CAP: AtomicUsize = AtomicUsize::new(usize::MAX);
pub static TRACE_OVERCAP: AtomicUsize = AtomicUsize::new(0);

pub fn set_alloc_cap(cap: Option<usize>) {
    if std::env::var("VERIF_BACKTRACE").is_ok() {
        TRACE_OVERCAP.store(1, Ordering::Relaxed);
    }
    CAP.store(cap.unwrap_or(usize::MAX), Ordering::SeqCst);
}

unsafe impl std::alloc::GlobalAlloc for CapAlloc {
    unsafe fn alloc(&self, layout: std::alloc::Layout) -> *mut u8 {
        check(layout.size());
        unsafe { std::alloc::System.alloc(layout) }
    }
    unsafe fn dealloc(&self, ptr: *mut u8, layout: std::alloc::Layout) {
        unsafe { std::alloc::System.dealloc(ptr, layout) }
    }
    unsafe fn alloc_zeroed(&self, layout: std::alloc::Layout) -> *mut u8 {
        check(layout.size());
        unsafe { std::alloc::System.alloc_zeroed(layout) }
    }
    unsafe fn realloc(&self, ptr: *mut u8, layout: std::alloc::Layout, new_size: usize) -> *mut u8 {
        check(new_size);
        unsafe { std::alloc::System.realloc(ptr, layout, new_size) }
    }
}

#[inline]
fn check(size: usize) {
    if size > CAP.load(Ordering::Relaxed) {
        overcap(size);
    }
}

#[cold]
fn overcap(size: usize) -> ! {
    // async-signal-safe style: format without allocating
    let mut buf = [0u8; 64];
    let prefix = b"OVERCAP ";
    buf[..prefix.len()].copy_from_slice(prefix);
    let mut n = size;
    let mut digits = [0u8; 24];
    let mut d = 0;
    loop {
        digits[d] = b'0' + (n % 10) as u8;
        n /= 10;
        d += 1;
        if n == 0 {
            break;
        }
    }
    let mut len = prefix.len();
    for i in (0..d).rev() {
        buf[len] = digits[i];
        len += 1;
    }
    buf[len] = b'\n';
    len += 1;
    unsafe {
        libc_write(2, buf.as_ptr(), len);
    }
    {
        CAP.store(usize::MAX, Ordering::SeqCst);
        let bt = std::backtrace::Backtrace::force_capture().to_string();
        let frames: Vec<String> = bt.lines().map(|l| l.trim()).filter(|l| l.contains("agdb::") && !l.contains("dbsim") && !l.contains("srvsim::drive")).take(5).map(|l| l.splitn(2, ": ").nth(1).unwrap_or(l).to_string()).collect();
        eprintln!("OVERCAP-VIA {}", frames.join(" <- "));
    }
    std::process::abort();
}

unsafe extern "C" {
    #[link_name = "write"]
    fn libc_write(fd: i32, buf: *const u8, count: usize) -> isize;
}

pub fn viol_json(run: u64, v: &Viol, plan: &Value) -> Value {
    json!({"run": run, "trial": v.trial, "property": v.property, "class": v.class, "detail": v.detail, "plan": plan})
}


/// One registered check of an engine.
pub struct CheckDef {
    pub id: &'static str,
    pub level: &'static str,
    pub generate: fn(u64, u64, Tier) -> Value,
    pub exec: fn(&Value, &mut Trials) -> RunReport,
    /// JSON pointer of the step list the shrinker reduces
    pub steps: &'static str,
    pub runs: fn(Tier) -> u64,
    pub wall_cap_s: fn(Tier) -> u64,
    pub rule: &'static str,
    pub assumptions: &'static [&'static str],
    pub real: &'static [&'static str],
    pub stub: &'static [&'static str],
    pub eval_unit: &'static str,
}

/// What an engine hands to the generic supervisor.
pub struct Engine {
    pub name: &'static str,
    pub find: fn(&str) -> Option<CheckDef>,
    /// free-text description of simulated time for the evidence
    pub simulated_time: &'static str,
    pub alloc_cap: usize,
    /// seconds of worker silence after which it is killed as hung (per check id)
    pub hang_s: fn(&str) -> u64,
}
