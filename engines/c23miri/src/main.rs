//! C23, second engine: the same property (concurrent readers of one database see what a single reader sees)
//! under Miri's scheduler, which can preempt a thread at any basic block - also between two steps that contain
//! no I/O call and no lock, where the I/O-level scheduler of dbsim has no scheduling point. One Miri seed
//! (-Zmiri-seed) is one exactly repeatable schedule. The file system is an in-memory one behind agdb's
//! cfg(agdb_verif) seam; everything else is the real agdb (DbFile, FileStorage, the query layer).
use agdb::verif::{OpenFlags, SimFs};
use agdb::{DbFile, QueryBuilder};
use std::collections::HashMap;
use std::io::{self, SeekFrom};
use std::sync::{Arc, Mutex};

#[derive(Default)]
struct Inner {
    files: HashMap<String, Vec<u8>>,
    handles: HashMap<u64, (String, u64)>,
    next: u64,
}
#[derive(Default)]
struct MemFs(Mutex<Inner>);

impl SimFs for MemFs {
    fn owns(&self, path: &str) -> bool {
        path.starts_with("/sim/")
    }
    fn open(&self, path: &str, flags: OpenFlags) -> io::Result<u64> {
        let mut i = self.0.lock().unwrap();
        if !i.files.contains_key(path) {
            if !flags.create {
                return Err(io::Error::from(io::ErrorKind::NotFound));
            }
            i.files.insert(path.to_string(), vec![]);
        } else if flags.truncate && flags.write {
            i.files.insert(path.to_string(), vec![]);
        }
        i.next += 1;
        let h = i.next;
        i.handles.insert(h, (path.to_string(), 0));
        Ok(h)
    }
    fn read(&self, handle: u64, buf: &mut [u8]) -> io::Result<usize> {
        std::thread::yield_now();
        let mut i = self.0.lock().unwrap();
        let (path, pos) = i.handles.get(&handle).cloned().ok_or_else(|| io::Error::from(io::ErrorKind::NotFound))?;
        let f = i.files.get(&path).ok_or_else(|| io::Error::from(io::ErrorKind::NotFound))?;
        let start = (pos as usize).min(f.len());
        let n = buf.len().min(f.len() - start);
        buf[..n].copy_from_slice(&f[start..start + n]);
        i.handles.get_mut(&handle).unwrap().1 = pos + n as u64;
        Ok(n)
    }
    fn write(&self, handle: u64, buf: &[u8]) -> io::Result<usize> {
        let mut i = self.0.lock().unwrap();
        let (path, pos) = i.handles.get(&handle).cloned().ok_or_else(|| io::Error::from(io::ErrorKind::NotFound))?;
        let f = i.files.get_mut(&path).unwrap();
        let end = pos as usize + buf.len();
        if f.len() < end {
            f.resize(end, 0);
        }
        f[pos as usize..end].copy_from_slice(buf);
        i.handles.get_mut(&handle).unwrap().1 = end as u64;
        Ok(buf.len())
    }
    fn seek(&self, handle: u64, pos: SeekFrom) -> io::Result<u64> {
        std::thread::yield_now();
        let mut i = self.0.lock().unwrap();
        let (path, cur) = i.handles.get(&handle).cloned().ok_or_else(|| io::Error::from(io::ErrorKind::NotFound))?;
        let len = i.files.get(&path).map(|f| f.len() as u64).unwrap_or(0);
        let new = match pos {
            SeekFrom::Start(p) => p,
            SeekFrom::End(d) => (len as i64 + d) as u64,
            SeekFrom::Current(d) => (cur as i64 + d) as u64,
        };
        i.handles.get_mut(&handle).unwrap().1 = new;
        Ok(new)
    }
    fn set_len(&self, handle: u64, len: u64) -> io::Result<()> {
        let mut i = self.0.lock().unwrap();
        let (path, _) = i.handles.get(&handle).cloned().ok_or_else(|| io::Error::from(io::ErrorKind::NotFound))?;
        i.files.get_mut(&path).unwrap().resize(len as usize, 0);
        Ok(())
    }
    fn close(&self, handle: u64) {
        self.0.lock().unwrap().handles.remove(&handle);
    }
}

fn main() {
    let fs: Arc<dyn SimFs> = Arc::new(MemFs::default());
    agdb::verif::install_global_fs(Some(fs));
    let mut db = DbFile::new("/sim/db").unwrap();
    db.exec_mut(QueryBuilder::insert().nodes().count(4).values_uniform([("k", 1).into(), ("name", "a-string-longer-than-fifteen-bytes").into()]).query()).unwrap();
    db.exec_mut(QueryBuilder::insert().values([[("k", 2).into()], [("k", 3).into()]]).ids([2, 3]).query()).unwrap();
    let ids = [1i64, 2, 3, 4];
    let expected: Vec<String> = ids.iter().map(|id| format!("{:?}", db.exec(QueryBuilder::select().ids(*id).query()))).collect();
    let db = Arc::new(db);
    let expected = Arc::new(expected);
    let mut ts = vec![];
    for t in 0..3u64 {
        let db = db.clone();
        let expected = expected.clone();
        ts.push(std::thread::spawn(move || {
            for round in 0..2 {
                for (n, id) in ids.iter().enumerate() {
                    let k = (n + t as usize + round) % ids.len();
                    let got = format!("{:?}", db.exec(QueryBuilder::select().ids(ids[k]).query()));
                    if got != expected[k] {
                        eprintln!("MISMATCH thread {t} id {}: {got} vs {}", ids[k], expected[k]);
                        std::process::exit(1);
                    }
                    let _ = id;
                }
            }
        }));
    }
    for t in ts {
        t.join().unwrap();
    }
    println!("ok");
}
