#!/bin/bash
# gen.sh [repo] : writes Cargo.toml for the repository under test (default /repo)
cd "$(dirname "$0")"
REPO="${1:-/repo}"
sed "s|@REPO@|$REPO|" Cargo.toml.in > Cargo.toml
[ -f Cargo.lock ] || cp "$REPO/Cargo.lock" Cargo.lock
